# claims.py - what MANIFEST.json says about each property (tools/mkmanifest.py writes the file).
# A property is in CLAIMS once bin/check decides it; until then it is in NOT_APPLICABLE with the
# reason it is not claimed yet.

OPT_NOTE = ("Trusted: Coq 8.16.1 kernel (vm_compute, no native_compute); extraction (ExtrOcamlBasic, "
            "ExtrOCamlFloats) + ocaml/float64.ml shim; the Rust harness and OCaml driver that transport and "
            "compare cases; libm exp/powf shared by both sides.  The optimiser model coq/model/Optimiser.v is "
            "hand-written and tied to src/optimisation.rs + src/basis.rs by bit-exact replay on every run "
            "(same builder settings, same Pcg64Mcg draws, recorded scores as oracle: the model must ask for "
            "bit-identical parameter vectors at every State::score() call and return the same state).")

ENGINES = [
    {"name": "cli", "path": "bin/eng_cli.py + harness/src/pipe.rs + coq/model/Pipeline.v",
     "serves_properties": ["C09", "C10", "C11", "C20"],
     "kind_free_text": "the built packing binary (thread counts, replications, argument grid) against a replica-by-replica replay of "
                       "the library path in the harness; written files read back"},
    {"name": "geom", "path": "harness/src/geom.rs + harness/src/geomgen.rs + ocaml/engine_geom.ml + bin/eng_geom.py + coq/model/Geom.v",
     "serves_properties": ["C01", "C02", "C03", "C04", "C12", "C13", "C14", "C15"],
     "kind_free_text": "correspondence of the extracted geometry model with the implementation on injected states and placed pairs; "
                       "monitors with independent oracles (International Tables, separating-axis separation, lattice sums)"},
    {"name": "parse", "path": "harness/src/parse.rs + ocaml/engine_parse.ml + bin/eng_parse.py + coq/model/Parse.v",
     "serves_properties": ["C17"],
     "kind_free_text": "bit-exact correspondence of the extracted parser model with Transform2::from_operations on grammar and "
                       "arbitrary strings; independent expression evaluator as monitor"},
    {"name": "tables", "path": "harness/src/dump.rs + bin/gen.py + coq/gen/*.v + coq/model/Spec.v",
     "serves_properties": ["C16", "C10", "C04", "C08"],
     "kind_free_text": "regeneration of the data-like model parts (group tables, handle bounds, JSON schema) from the running code; "
                       "finite facts decided by vm_compute"},
    {"name": "opt", "path": "harness/src/opt.rs + ocaml/engine_opt.ml + coq/model/Optimiser.v",
     "serves_properties": ["C05", "C06", "C07", "C08", "C18", "C19", "C20"],
     "kind_free_text": "bit-exact correspondence of the extracted Coq optimiser model with MCOptimiser::optimise_state "
                       "on scripted and real states, plus direct monitors on the recorded history"},
]

NOTES = ("Extraction is cross-checked: for C01/C12/C13/C14/C15/C17 and all optimiser properties (C05-C08, C18-C20) a sample of cases is also evaluated by vm_compute inside Coq and "
         "compared there with the implementation's recorded values.  Thorough tier: coqchk re-checks the compiled theorems.  "
         "The crate's numeric formulas (acceptance rule, cooling factor, clamp/sample, LJ energy, pair predicates, cell area, "
         "lens area, shell count, score) are re-translated from the source text on every run (bin/rs2coq.py -> gen/GenFns.v) and "
         "proved equal to the model's definitions (proofs/SrcOpt.v, SrcShapes.v, SrcCell.v, SrcState.v, SrcOrder.v - one file per area of the source, so that a change to one area only touches the properties that pin it); so are whole functions and loop bodies: "
         "check_intersection, PotentialState::score, periodic_images, positions (SrcState.v, SrcCell.v) and the body of "
         "optimise_state's inner loop, the tail of its outer loop, its start and its final assertion "
         "(mc_step_is_source, end_loop_is_source, init_is_source, final_assert_is_source).  "
         "Every claimed check = (1) proof gate: full coqc build of coq/props/<id>.v and its dependencies, Print "
         "Assumptions allowlist, forbidden-token scan; (2) correspondence of the executable model with /repo's "
         "current working tree; (3) direct monitors that search for a concrete failing input.  See DESIGN.md.")

GEOM_NOTE = ("Trusted: Coq kernel; extraction + float64 shim; harness/driver transport.  States with several occupied sites are inside the model "
             "and the theorems (copies = sites x operations).  coq/model/Geom.v is hand-written; its numeric functions, shape "
             "constructors, areas, enclosing radii, overlap tests, score functions and position pipelines are proved EQUAL to their "
             "translations from the source text of this run (proofs/Src*.v), while nalgebra's 3x3 product, Transform*Point with its "
             "normaliser branch and the serde layout are MODELLED; in addition the model is tied to the running code "
             "on every run: its binary64 instance is compared with the implementation's placements, images, areas and scores "
             "(bit-exact up to signed zeros, else within 1e-12) on states injected through the public Deserialize.  Theorems are "
             "over the reals for the same program text; floating-point rounding in the geometry layer is not reasoned about.  "
             "cos/sin of the angles are values supplied by libm (premises).")

CLAIMS = {
    "C09": dict(
        engine="cli", design_ref="DESIGN.md section 4 C09",
        technique="Coq: footprint/frame theorem by induction over the run + associativity of max over a total preorder (generic, and instantiated in binary64 through Flocq); determinism is definitional in the model and tied to the code by bit-exact replay in rayon pools and across processes (partial)",
        text="Theorems: a run writes only the parameter cells its handles point to, so optimising a clone (fresh cells) leaves the "
             "original and every other replica untouched (any number of steps, any oracle); a run depends on the shared heap only "
             "through the replica's own cells (C09_run_local), so for EVERY interleaving of the atomic steps of two replicas over "
             "one heap each ends exactly as in isolation (C09_interleaving_does_not_matter); std::cmp::max is associative on a total "
             "preorder and every reduction tree over the index-ordered results returns the sequential result - also in binary64: the "
             "order of defined non-NaN scores is total and transitive (Flocq), Ord::max (`if other < self`) is max2 for it and "
             "never panics.  The states' partial_cmp / == / max (both bracketings) are compared with that model and with the order "
             "of their scores on triples of variants with equal, ulps-apart, negative and undefined scores; the same optimiser "
             "object is reused across runs (nothing may carry over).  The optimiser model "
             "is a function of configuration, random stream and state; the code is replayed bit-for-bit against it, replicas are "
             "re-run inside rayon pools of 1,3,8 (thorough: 1..16) threads in reversed order and compared with the sequential run, "
             "and the binary's output files are compared byte-for-byte across thread counts and processes.",
        note=OPT_NOTE + "  Memory-model aspects (data races, unsafe impl Sync), rayon's scheduler and OS effects cannot be exhibited by "
             "a Gallina model: the theorem assumes Rust ownership (each replica owns its clone)."),
    "C10": dict(
        engine="cli", design_ref="DESIGN.md section 4 C10",
        technique="Coq proofs about max over a total preorder (best element, prefix monotonicity, error iff no replicas) + vm_compute over regenerated labels + binary vs library replay",
        text="Theorems: the value analyse_state returns is one of the replica results and no replica scores higher; adding a replica "
             "never lowers it; the error outcome occurs iff there are no replicas; each group's label is the name it is requested by "
             "and its family that of the specification (regenerated tables); in binary64 the element returned has a score >= every "
             "replica's (float_best_is_max).  The order on the states is compared with the order of their scores (triples of "
             "variants, incl. negative Lennard-Jones scores).  The binary is run for replications 1..k: logged score = "
             "score of the written JSON = best replica score of the library replay, prefix-monotone, labels/family/shape/copies.",
        note="Trusted: Coq kernel; regeneration (dump + gen.py); the harness's replay of analyse_state (a re-statement of main.rs "
             "lines 96-133, compared with the binary's output on every case); structopt/env_logger text output."),
    "C11": dict(
        engine="geom", design_ref="DESIGN.md section 4 C11",
        technique="Coq: round-trip theorem for the tree-level codec (induction over the lists), schema tied to serde output by regeneration; SVG matrix semantics by ring; text layer tested (partial)",
        text="Theorems: decode (encode s) = Some s for every state of the tree-level model (all fields, every entry of every symmetry "
             "matrix, opaque shape subtree), hence identical re-serialisation; the model's key tree equals the key tree serde emits "
             "for all 7 groups x 5 state kinds (regenerated); an SVG renderer applying the printed matrix(a b c d e f) places every "
             "point where the structure does, the six numbers are printed in the order probed from the code, and the <use> list is "
             "per placement the Cartesian placement followed by its 8 neighbour translates.  Monitors: from_str(to_string(s)) has "
             "bit-identical score and placements and identical text, for generated states incl. subnormal/boundary values; the SVG "
             "text is parsed and compared; files written by the binary over existing longer files are read back.",
        note=GEOM_NOTE + "  serde_json/ryu number printing and parsing, and the svg crate's writer, are external code: tested, not proved."),
    "C08": dict(
        engine="opt", design_ref="DESIGN.md section 4 C08",
        technique="handle data regenerated from the running code + vm_compute; Coq induction over the run for the range invariant (binary64 and reals) + bit-exact replay on real states + monitors on chains of stages",
        text="coq/gen/GenBounds.v is regenerated on every run by probing generate_basis() of the initial state of all 7 groups x 5 "
             "state kinds; vm_compute decides that the handles are exactly length in [0.01, start], ratio in [0.1, start], angle in "
             "[pi/6, pi/2] for oblique groups and NO angle handle for rectangular ones, x, y in [-1/2, 1/2], orientation in [0, 2 pi], "
             "with a defined initial score and the group's copy count.  Theorem (induction over the run, any score oracle and "
             "random stream): every handled parameter stays in its handle's range and every other parameter keeps its value - "
             "reals unconditionally, and binary64 unconditionally too for finite ranges and step sizes of magnitude <= 2^300 and draws "
             "in [-1, 1] (C08_ranges_binary64_unconditional: no sample of the run is NaN, because the step ratio of every reachable "
             "state is a positive number <= 1 - sign analysis of IEEE * / + through Flocq); the held state's score is always defined; chained "
             "stages use sub-ranges.  Monitors check ranges, family, finite score on chains of 1-5 optimisation stages of clones.",
        note=OPT_NOTE + "  Magnitudes above 2^300 are outside the unconditional theorem (monitored); that EVERY shape of well-defined "
             "area starts from a valid state is checked for the dumped shapes only (polygon, circle, trimer), not proved for all."),
    "C02": dict(
        engine="geom", design_ref="DESIGN.md section 4 C02",
        technique="Coq proofs over the reals of the formula identities; the lens term as an integral (Coquelicot: derivative of the segment formula, fundamental theorem of calculus, common chord); score <= 1 not proved (partial) + model/impl comparison of areas and scores + exact union-of-discs and shoelace oracles",
        text="Theorems (reals): a defined score equals copies x shape area / cell area and the cell area is |A x B|; the polygon "
             "area the code computes equals the shoelace area of the radial polygon (sine subtraction law); the molecule area is "
             "the sum of disc areas minus the pairwise lens terms (zero for discs that do not reach each other).  The lens term is the "
             "area of the two-disc intersection in the sense of integrals: overlap_area(r,d) = r^2 acos(d/r) - d sqrt(r^2-d^2) has "
             "derivative minus the chord length 2 sqrt(r^2-x^2), vanishes at the rim and is pi r^2 for the whole disc, so it is the "
             "integral of the chord length beyond the chord (C02_segment_integral); the two chords of circle_overlap are the common "
             "chord of the two circles, at distances d1 + d2 = D (C02_circle_overlap_is_two_segments).  Not proved: score <= 1.  "
             "Areas and scores are monitored on every generated shape "
             "(exact arc-decomposition area of the union of discs; shoelace on emitted vertices; score in (0,1]).  Known finding D7: "
             "three discs with a common region.",
        note=GEOM_NOTE + "  acos, sqrt, sin and pi are libm values shared by model and implementation."),
    "C03": dict(
        engine="geom", design_ref="DESIGN.md section 4 C03",
        technique="Coq proofs over the reals: sums over the loops and double-sum exchange for the weighting; window independence (permutation of the index window + far-image bound + triangle inequality) for cut potentials; invariance under moving the site by lattice vectors and under moving the origin (re-indexed lattice windows, ordered-pair total); uncut tails by monitor (partial)",
        text="Theorems (reals, every state): -N*score = sum over unordered pairs of distinct copies in the cell + 1/2 sum over "
             "ordered pairs (copy, image of a copy within 3 shells), the images being exactly the lattice translates of C14; for "
             "an order-independent pair energy that is half the sum over ordered pairs of distinct molecule images - every pair "
             "once.  For a cut potential with cutoff + 2 rho <= 3 sin(angle) min(a,b) (rho = largest particle offset) the image "
             "term is the same over ANY window of k >= 3 shells, so the score is the lattice energy of the infinite crystal "
             "(C03_lj_score_is_infinite_lattice_sum); known finding D14 (3 shells miss in-range pairs in very flat cells) is exactly "
             "the failure of that condition.  Moving the site by whole lattice vectors (a copy across a cell face) leaves the "
             "score unchanged exactly (C03_lj_score_site_shift).  The model is compared with the implementation's score (mostly "
             "bit-exact).  Moving the ORIGIN (C03_lj_score_origin_shift / C03_lj_score_moved_origin): two descriptions whose "
             "placements have the same orientations and fractional positions differing by one common vector modulo lattice "
             "vectors - in particular the site moved by any h that every operation fixes modulo the lattice, e.g. every half "
             "lattice vector for the seven groups (C03_half_vectors_are_fixed) - have the same score, for like particles and a cut "
             "potential within range; the pairs change between 'in the cell' and 'image' between the descriptions, the proof "
             "goes through the total over ordered pairs and a re-indexing of the lattice window.  Monitored, not proved: uncut "
             "potentials against a many-shell lattice sum (measured truncation error).",
        note=GEOM_NOTE + "  powi's multiplication order is unspecified: energies are compared within 1e-12 of the magnitude of their terms."),
    "C13": dict(
        engine="geom", design_ref="DESIGN.md section 4 C13",
        technique="Coq proofs over the reals (field/ring/nra) of every clause of the law + model/impl comparison on particle pairs incl. cutoff-straddling distances",
        text="Theorems (reals): uncut energy = 4 eps ((sigma/r)^12-(sigma/r)^6); with a cutoff, that minus its value at the cutoff "
             "inside, exactly 0 at and beyond it, continuous there; minimum -eps exactly where (sigma^2/r^2)^3 = 1/2; depends only "
             "on the distance; invariant under every rigid motion/reflection, parameters kept; symmetric for like particles; "
             "molecule energy = sum over particle pairs, symmetric for like particles.  Known finding D9 (theorem "
             "lj_asymmetric_unlike): for unlike particles the energy depends on the order of the pair.",
        note=GEOM_NOTE),
    "C01": dict(
        engine="geom", design_ref="DESIGN.md section 4 C01",
        technique="Coq proof over the reals for all states and ALL lattice translates in Z^2 (induction-free: loop coverage + a far-image bound) + model/impl comparison + brute-force lattice oracle",
        text="Theorems (reals, every well-formed state): if the model of check_intersection lets the state be scored then for "
             "every pair of copies i, j and every translate (n,m) in Z^2 (not a copy with itself) either the centres are more "
             "than 2R apart or the pair predicate was evaluated on exactly that pair and said no - the shell count "
             "ceil(2R/(sin(angle) min(a,b))) the code computes is proved sufficient.  For circle and trimer shapes this is lifted "
             "to the plane: no point is interior to two copies of the tiling.  For convex polygon shapes "
             "(C01_scored_convex_shape_packing_no_overlap; hypotheses: the SHAPE is a closed convex polygon, the radius is the one "
             "the code computes): two placed copies share no interior point unless one has all its vertices strictly inside the "
             "other - the checked pairs by the completeness theorem of C12, the far pairs because a closed convex polygon lies "
             "within the circle through its farthest vertex (C01_inside_within_radius); rigid placements keep convexity "
             "(C01_placed_convex).  The built-in regular polygons are closed and convex for every n >= 3 (C01_polygon_closed, "
             "C01_polygon_convex: trigonometric proof about the model's constructor, which is compared with LineShape::polygon's "
             "items on every case), so for them no premise about the shape is left, and two placed copies of a regular polygon cannot be nested "
             "(C01_regular_polygons_cannot_nest) - hence C01_scored_regular_polygon_packing_disjoint: in a scored state of regular "
             "polygons no two placed copies, for any pair and any lattice translate, share an interior point.  For general convex "
             "radial shapes convexity stays a premise and nesting an exception.  The monitor "
             "searches all generated states (flat cells, copies near opposite faces, aligned/clamped states, optimiser outputs) "
             "with an independent separating-axis lattice oracle over one more shell than needed.",
        note=GEOM_NOTE),
    "C12": dict(
        engine="geom", design_ref="DESIGN.md section 4 C12",
        technique="Coq proofs over the reals (field/nra, first-exit induction over the edge list, cyclic walk) for soundness, exactness (discs), completeness for convex polygons and symmetry + pair engine with separating-axis oracle",
        text="Theorems (reals): a reported segment (hence polygon) intersection is a common point of two closed edges, so never "
             "yes for separated polygons; the disc test and the disc-molecule test are exact (yes iff the open discs share a "
             "point); all tests are symmetric in their arguments.  Completeness for polygons (C12_convex_overlap_detected): two closed "
             "convex polygons with a common interior point, neither with all vertices strictly inside the other, have an edge pair "
             "meeting transversally within both parameter ranges, so the test says yes (degenerate vertex-on-edge contacts included).  "
             "Invariance (C12_shape_intersects_rigid_invariant): every shape test gives the same answer after one common rigid motion "
             "or reflection; the segment/polygon test even after any invertible affine map.  In binary64 completeness "
             "and invariance fail at exactly aligned configurations: known findings D12 "
             "(collinear disjoint edges reported as intersecting) and D13 (copies displaced along an edge direction reported "
             "as not intersecting after a common rigid motion), found by this check's pair stream and classified by the harness.",
        note=GEOM_NOTE + "  The oracle is binary64 separating-axis arithmetic with a 1e-9 margin, not exact arithmetic."),
    "C04": dict(
        engine="geom", design_ref="DESIGN.md section 4 C04",
        technique="Coq proof over the reals for all sites/cells (closure table decided by vm_compute, lifted by a general lemma) + model/impl comparison + monitor with an independent table",
        text="Theorem (reals; all 7 groups, all site coordinates, ANY 2x2 site matrix, all cells of the group's family): each "
             "operation a, written in Cartesian space as x -> L_a x + C t_a, is orthogonal, and composed with placement b equals "
             "placement c (= a o b in the group) translated by n A + m B for integers n, m - same linear part (orientation, "
             "handedness), same position modulo the lattice.  Outside the family the mirror defect is exactly 2 b cos(angle) y. "
             "Hard and LJ states share the modelled positions code.  Preservation under optimisation rests on C08 (an "
             "orthorhombic cell has no angle handle).",
        note=GEOM_NOTE + "  The operations in the theorem are those of model/Spec.v; C16 (re-checked in this check) proves the "
             "regenerated tables equal to them."),
    "C14": dict(
        engine="geom", design_ref="DESIGN.md section 4 C14",
        technique="Coq proofs over the reals (ring/field, induction over the index ranges) + bit-exact model/impl comparison",
        text="Theorems (all cells, placements and shell counts k >= 0): the Cartesian map is linear with A=(a,0), B=(b cos, b sin); "
             "periodic_images is, in the order of the nested loops, the placement translated by n A + m B for exactly the index "
             "pairs |n|,|m| <= k (the pair (0,0) kept iff asked), without repetition, (2k+1)^2 - [not zero] of them, linear "
             "part unchanged; the cell area is |A x B|.",
        note=GEOM_NOTE),
    "C15": dict(
        engine="geom", design_ref="DESIGN.md section 4 C15",
        technique="Coq proofs over the reals (truncated remainder, uniqueness modulo 1) and in binary64 through Flocq (rounding to integer at 2^52, Sterbenz, monotone rounding) + bit-exact model/impl comparison incl. bound-clamped sites",
        text="Theorems (reals): wrap(x) is in [-1/2,1/2), differs from x by an integer and is the unique such number, so "
             "coordinates that differ by integers wrap identically; positions() has one placement per operation, placement k "
             "= (L_k R, wrap(L_k p + t_k)); a site moved by lattice vectors, or rotated by 2 pi, gives identical placements.  The "
             "Theorem (binary64, C15_F_wrap_in_cell): for EVERY finite coordinate of magnitude up to 2^51 the wrapped coordinate "
             "is a finite float w with -1/2 <= w <= 1/2 - 2^-53, rounding of all three additions and both remainders included "
             "(the model's remainder is proved to be an exact fractional part: C15_ffmod1_range).  The binary64 wrap is also "
             "exercised bit-for-bit on the edge set (x,y = +-1/2, +-(1/2 - 2^-54), denormals, -0.0).",
        note=GEOM_NOTE + "  The binary64 theorem is about the model's wrap1 over NumF (ffmod1 = fmod(x, 1) by the 2^52 trick), which "
             "the geometry engine compares bit for bit with Transform2::periodic on every case."),
    "C17": dict(
        engine="parse", design_ref="DESIGN.md section 4 C17",
        technique="Coq proof by induction over grammar derivations (strings of every length) + bit-exact model/impl comparison on strings",
        text="Theorem (reals): for every well-formed operation (two components of signed terms x, y, d, d/d', each kind at most "
             "once) and EVERY rendering of it (arbitrary spaces, optional '+', any number of outer parentheses) the parser model "
             "returns Ok with exactly the coefficients the expression denotes, so matrix*(x,y,1) is the value of the "
             "expression; the model is a total function (no crash is possible in it).  The model's binary64 instance is compared "
             "bit-for-bit with Transform2::from_operations on grammar strings and on arbitrary/malformed/multi-byte strings, "
             "where a Rust panic is a violation; the 17 built-in strings parse (in the model) to the regenerated tables.",
        note="Trusted: Coq kernel; extraction; harness/driver transport (strings as hex bytes); the byte-level model of "
             "Rust's char-level trim/split (multi-byte characters never contain the ASCII bytes involved)."),
    "C16": dict(
        engine="tables", design_ref="DESIGN.md section 4 C16",
        technique="model regenerated from the running code + vm_compute over the complete finite domain + Coq proof of metric invariance for all cells",
        text="coq/gen/GenTables.v is regenerated on every run from what get_wallpaper_group + WyckoffSite::new return now. "
             "Theorems: the tables equal, entry by entry, the general positions of plane groups 1,2,3,4,6,7,8 typed in "
             "independently from International Tables A; those are groups modulo Z^2 (identity, closure, inverses, order, "
             "mirror/glide/two-fold content; all pairs, decided completely by vm_compute); every operation preserves every "
             "cell metric of the paired crystal family (proved for all A,B,C), and the rectangular groups need that family.",
        note="Trusted: Coq kernel incl. vm_compute; `vharness dump` + bin/gen.py (regeneration; exact f64 -> rational "
             "conversion in Python); model/Spec.v as typed in from ITA."),
    "C05": dict(
        engine="opt", design_ref="DESIGN.md section 4 C05",
        technique="Coq proof on IEEE binary64 (Flocq model of primitive floats) + induction over the run + bit-exact replay",
        text="Theorem (binary64, every configuration with kt_start = 0 of either sign, EVERY kt_ratio (finite, infinite, NaN, "
             "absent), every kt_finish, step counts, oracle and random stream with thresholds >= 0): the temperature is +0 in "
             "every loop and the held score is non-decreasing between any two points of the run, so the result is at least "
             "the input score.  Key float facts proved through Flocq: x<y -> (x-y)/+0 = -inf; the factor "
             "min(max(0,1-r),f64::MAX) is finite and non-negative for every r, so 0*factor = +0; <= is transitive.  "
             "(Defects D17/D18 - infinite ratio, negative-zero start - were found through the old theorem's premises and fixed.)  "
             "The command line: the three stages of a replica are translated from the text of main.rs on every run "
             "(gen/GenCli.v) and stages 1 and 3 are proved to be such zero-temperature runs for every user configuration.",
        note=OPT_NOTE + "  Premise: libm exp(-inf) = 0."),
    "C06": dict(
        engine="opt", design_ref="DESIGN.md section 4 C06",
        technique="Coq proof by induction over the draw list (any Num instance, any oracle) + bit-exact model/impl replay",
        text="Theorems (for every numeric instance, score oracle and random stream, by induction over the run): after a "
             "step the parameter vector is the proposal or exactly the previous vector; a proposal differs from the "
             "held vector in at most one cell; the vector and score held at any point are those of the last accepted "
             "proposal (or the input).  The model is replayed bit-for-bit against the Rust optimiser on every run.",
        note=OPT_NOTE),
    "C07": dict(
        engine="opt", design_ref="DESIGN.md section 4 C07",
        technique="Coq proofs on binary64 (Flocq/PrimFloat) and on reals + bit-exact replay with threshold-aware scripted scores",
        text="Theorems: an undefined or NaN score is never accepted, a better score is always accepted (binary64, all "
             "temperatures/thresholds); over the reals a proposal worse by d>0 at kT>0 is accepted iff the threshold is "
             "below exp(-d/kT), an equal score is accepted for thresholds < 1.  Replay places scripted proposals on both "
             "sides of the acceptance boundary computed from the replayed threshold.",
        note=OPT_NOTE + "  The uniformity of the thresholds (rand's gen::<f64>) is a premise."),
    "C18": dict(
        engine="opt", design_ref="DESIGN.md section 4 C18",
        technique="Coq invariant kt = kt_start * f^loops (any Num) + real-analysis theorem for the factor + replay",
        text="Theorems: the temperature used by every step equals kt_start cooled (loops completed) times by one factor "
             "chosen in build(); the factor is 1-ratio, or the default, or (finish/start)^(1/loops), and over the reals "
             "the latter reaches kt_finish exactly after the run's loops; at zero start the factor never comes from kt_finish.",
        note=OPT_NOTE),
    "C19": dict(
        engine="opt", design_ref="DESIGN.md section 4 C19",
        technique="Coq invariant ratio <= 1 over the run (binary64 and reals) + real bound on clamp(sample) + replay",
        text="Theorems: in every state of every run the step ratio is <= 1 (proved for binary64 and reals through the "
             "nmin premise); a proposal replaces exactly the drawn handle's cell by clamp(v + max_step*ratio*range*g); "
             "over the reals |move| <= max_step*range/2.",
        note=OPT_NOTE),
    "C20": dict(
        engine="opt", design_ref="DESIGN.md section 4 C20",
        technique="Coq proofs (N arithmetic, induction over draws): work bounds, termination, defined final score + replay",
        text="Theorems: the run makes (steps/inner')*inner' proposals (<= steps, > steps - inner'), a whole number of "
             "loops when it converges early; for a valid input and in-range draws optimise returns normally with a "
             "state whose score is defined (no panic outcome of the model is reachable).",
        note=OPT_NOTE + "  The CLI part (exit status, files) is covered by the cli engine when built."),
}

# the regeneration tie, per property: which areas of the source are re-translated on every run and proved equal to the model
_SRC = {
    "C01": "shapes, cell, check_intersection / score as wholes (SrcShapes, SrcState, SourceHeadlines)",
    "C02": "areas, cell, score as a whole (SrcShapes, SrcCell, SrcState, SourceHeadlines)",
    "C03": "LJ energies, PotentialState::score as a whole (SrcShapes, SrcState, SourceHeadlines)",
    "C05": "build and the loop bodies of optimise_state (SrcOpt, SourceHeadlinesOpt)",
    "C06": "the loop bodies of optimise_state, StandardBasis's methods (SrcOpt, SourceHeadlinesOpt)",
    "C07": "accept_score and its use in the loop (SrcOpt, CorOpt)",
    "C08": "the declared ranges and the starting state (BasisFacts, BasisRun), clamp / sample (SrcOpt)",
    "C09": "the order on states (SrcOrder); the stages of main.rs (GenCli)",
    "C10": "the order on states (SrcOrder); the stages of main.rs (GenCli)",
    "C11": "the SVG matrix entries and document loops (SvgSource)",
    "C12": "the pair tests and shape-level intersects (SrcShapes, SourceHeadlinesShapes)",
    "C13": "LJ2::energy, LJShape2::energy, from_trimer (SrcShapes, CorLJ)",
    "C14": "cell sides, area, to_cartesian, periodic_images (SrcCell, SourceHeadlinesCell)",
    "C15": "the wrap, positions, the position pipelines (SrcCell, SrcState, SourceHeadlinesCell)",
    "C17": "the character step, splitting and dimension check of from_operations (ParseSource)",
    "C18": "build, the cooling in the loop tail (SrcOpt, SourceHeadlinesOpt); the stages of main.rs (GenCli)",
    "C19": "the step-ratio update and its use in the proposal (SrcOpt, StepFacts); the stages of main.rs (GenCli)",
    "C20": "the loop ranges, the convergence block, the final assertion (SrcOpt, SourceHeadlinesOpt); the stages of main.rs (GenCli)",
}
for _p, _t in _SRC.items():
    CLAIMS[_p]["technique"] += " + regeneration: " + _t + " re-translated from the source text on every run and proved equal to the model"

_NOT_YET = "not claimed yet: the model/theorems/engine for this property are still being built (see DESIGN.md section 7)"
NOT_APPLICABLE = {}
