# engines.py - per-property configuration and the engines (case generation, running the
# implementation through the Rust harness, running the extracted Coq model through the OCaml
# driver, collecting monitor findings and correspondence mismatches).
import json
import os
import subprocess
import re
import time

from vlib import *  # noqa

TRUSTED_COMMON = [
    "Coq 8.16.1 kernel (coqc; vm_compute used, native_compute not used)",
    "Coq extraction with ExtrOcamlBasic + ExtrOCamlFloats; ocaml/float64.ml shim; OCaml 4.13.1",
    "harness/ (Rust) and ocaml/engine_*.ml: case transport and comparison",
    "hand-written model coq/model/*.v tied to the code by the correspondence run recorded here",
]

OPT_NOTE = ("optimiser model (coq/model/Optimiser.v) replayed bit-for-bit against "
            "MCOptimiser::optimise_state on scripted and real states")

CLI_TRUST = ("bin/gen.py parse_main: translator of analyse_state in src/main.rs into coq/gen/GenCli.v (stage setter lists, replica "
             "range, reduction), re-run on every check; model/Cli.v gives the setters their meaning")

FNS_TRUST = ("bin/rs2coq.py + the tables in bin/gen.py (FNS): translator of the crate's numeric formulas from the source text into "
             "coq/gen/GenFns.v, re-run on every check; proofs/Src*.v prove each equal to the hand-written model's definition")

PROPS = {
    "C09": dict(props_file="props/C09.v", engines=[("cli", dict(quick=4, thorough=60)), ("opt", dict(focus="C09", quick=160, thorough=4000)),
                                                      ("geom", dict(quick=[("ORD", 3000)], thorough=[("ORD", 150000)]))],
                design="DESIGN.md section 4 C09", trusted=[CLI_TRUST]),
    "C10": dict(props_file="props/C10.v", needs_gen=True, engines=[("cli", dict(quick=10, thorough=120)), ("tables", dict(groups=False, labels=True)),
                                                                      ("geom", dict(quick=[("ORD", 3000)], thorough=[("ORD", 150000)]))],
                design="DESIGN.md section 4 C10", trusted=[CLI_TRUST]),
    "C11": dict(props_file="props/C11.v", needs_gen=True, engines=[("geom", dict(quick=[("C11", 4000)], thorough=[("C11", 200000)])), ("cli", dict(quick=3, thorough=40))],
                design="DESIGN.md section 4 C11", trusted=[FNS_TRUST]),
    "C08": dict(props_file="props/C08.v", needs_gen=True,
                engines=[("opt", dict(focus="C08", quick=150, thorough=3000, coqeval_quick=4, coqeval_thorough=30)),
                         ("geom", dict(quick=[("C08", 1200)], thorough=[("C08", 40000)]))],
                design="DESIGN.md section 4 C08", trusted=[FNS_TRUST],
                assumptions=["magnitudes of bounds and step size at most 2^300 (premise of the unconditional binary64 range theorem; "
                             "every recorded proposal is monitored whatever the magnitudes)"]),
    "C02": dict(props_file="props/C02.v", engines=[("geom", dict(quick=[("C02", 8000), ("ORD", 1500)], thorough=[("C02", 400000), ("ORD", 60000)], coqeval_thorough=400))],
                design="DESIGN.md section 4 C02", trusted=[FNS_TRUST]),
    "C03": dict(props_file="props/C03.v", engines=[("geom", dict(quick=[("C03", 8000)], thorough=[("C03", 400000)]))],
                design="DESIGN.md section 4 C03", trusted=[FNS_TRUST]),
    "C13": dict(props_file="props/C13.v", engines=[("geom", dict(quick=[("C13", 20000)], thorough=[("C13", 2000000)], coqeval_quick=40, coqeval_thorough=600))],
                design="DESIGN.md section 4 C13", trusted=[FNS_TRUST]),
    "C01": dict(props_file="props/C01.v", engines=[("geom", dict(quick=[("C01", 20000)], thorough=[("C01", 1500000), ("C01a", 300000)], coqeval_quick=24, coqeval_thorough=400))],
                design="DESIGN.md section 4 C01", trusted=[FNS_TRUST]),
    "C12": dict(props_file="props/C12.v", engines=[("geom", dict(quick=[("C12", 30000)], thorough=[("C12", 2000000)], coqeval_quick=40, coqeval_thorough=600))],
                design="DESIGN.md section 4 C12", trusted=[FNS_TRUST]),
    "C04": dict(props_file="props/C04.v", needs_gen=True,
                engines=[("geom", dict(quick=[("C04", 4000)], thorough=[("C04", 200000)])), ("tables", dict(groups=True))],
                design="DESIGN.md section 4 C04"),
    "C14": dict(props_file="props/C14.v", engines=[("geom", dict(quick=[("C14", 4000)], thorough=[("C14", 200000)], coqeval_quick=24, coqeval_thorough=400))],
                design="DESIGN.md section 4 C14", trusted=[FNS_TRUST]),
    "C15": dict(props_file="props/C15.v", engines=[("geom", dict(quick=[("C15", 4000)], thorough=[("C15", 200000)], coqeval_quick=24, coqeval_thorough=400))],
                design="DESIGN.md section 4 C15", trusted=[FNS_TRUST]),
    "C17": dict(props_file="props/C17.v", engines=[("parse", dict(grammar_quick=1500, grammar_thorough=20000,
                                                                   arbitrary_quick=3000, arbitrary_thorough=200000))],
                design="DESIGN.md section 4 C17"),
    "C16": dict(props_file="props/C16.v", needs_gen=True, engines=[("tables", dict(groups=True))],
                design="DESIGN.md section 4 C16",
                trusted=["bin/gen.py + `vharness dump`: regeneration of coq/gen/GenTables.v from the running code",
                         "model/Spec.v: the International Tables entries as typed in"]),
    "C05": dict(props_file="props/C05.v", engines=[("opt", dict(focus="C05", quick=250, thorough=6000, coqeval_quick=8, coqeval_thorough=60))],
                design="DESIGN.md section 4 C05",
                assumptions=["libm: exp(-inf) = 0 (premise of the binary64 theorems; tested by the harness on every run)",
                             "thresholds drawn by rand's gen::<f64>() are >= 0"],
                trusted=[FNS_TRUST, CLI_TRUST]),
    "C06": dict(props_file="props/C06.v", engines=[("opt", dict(focus="C06", quick=250, thorough=6000, coqeval_quick=8, coqeval_thorough=60))],
                design="DESIGN.md section 4 C06"),
    "C07": dict(props_file="props/C07.v", engines=[("opt", dict(focus="C07", quick=250, thorough=6000, coqeval_quick=6, coqeval_thorough=40))],
                design="DESIGN.md section 4 C07", trusted=[FNS_TRUST]),
    "C18": dict(props_file="props/C18.v", engines=[("opt", dict(focus="C18", quick=250, thorough=6000, coqeval_quick=6, coqeval_thorough=40))],
                design="DESIGN.md section 4 C18", trusted=[FNS_TRUST, CLI_TRUST]),
    "C19": dict(props_file="props/C19.v", engines=[("opt", dict(focus="C19", quick=250, thorough=6000, coqeval_quick=6, coqeval_thorough=40)), ("cli", dict(quick=0, thorough=2, step_probe=True))],
                design="DESIGN.md section 4 C19", trusted=[FNS_TRUST, CLI_TRUST]),
    "C20": dict(props_file="props/C20.v", engines=[("opt", dict(focus="C20", quick=250, thorough=6000, coqeval_quick=6, coqeval_thorough=40)), ("cli", dict(quick=2, thorough=30))],
                design="DESIGN.md section 4 C20", trusted=[FNS_TRUST, CLI_TRUST]),
}


def evidence_skeleton(prop, tier, seed, conf, t0, violations, note=None):
    ev = {
        "property_id": prop,
        "tier": tier,
        "seed": seed,
        "level": "proof",
        "coverage": {
            "obligations": 1,
            "discharged": 0,
            "checker_cmd": "make -C coq %s.vo (coqc 8.16.1, full .vo build) + Print Assumptions allowlist + forbidden-token scan"
                           % conf["props_file"][:-2],
            "trusted_base": TRUSTED_COMMON + conf.get("trusted", []),
            "evaluations": 0,
            "distinct_nontrivial": 0,
            "rule": "",
            "samples": [],
        },
        "assumptions": conf.get("assumptions", []),
        "wall_s": round(time.time() - t0, 2),
        "violations": violations,
    }
    if note:
        ev["coverage"]["notes"] = [note]
    return ev


def regenerate(conf):
    """Regenerate coq/gen/*.v from the running code (tie #1).  Returns a problem string or None."""
    # (every property: the generated files are small, only rewritten when their content changes, and
    #  only the properties whose theorems import them are recompiled)
    import gen
    return gen.regenerate()


def matches_known(k, f):
    """A known finding is identified by a regular expression over the failing case and message."""
    pat = k.get("match")
    if not pat:
        return False
    return re.search(pat, f.get("case", "") + " || " + f.get("what", "")) is not None


# ------------------------------------------------------------------------------------------
# opt engine

def read_specs(path):
    out = []
    if os.path.exists(path):
        for l in open(path):
            l = l.strip()
            if l and not l.startswith("#"):
                out.append(l)
    return out


def opt_run(prop, specs, tag, coqeval=0):
    """Run the implementation on the spec lines, then the model on the recorded cases."""
    wd = workdir(prop)
    sp = os.path.join(wd, "specs_%s.txt" % tag)
    with open(sp, "w") as f:
        f.write("\n".join(specs) + "\n")
    cases = os.path.join(wd, "cases_%s" % tag)
    rep = os.path.join(wd, "report_%s.txt" % tag)
    for fn in os.listdir(wd):
        if fn.startswith("cases_%s." % tag):
            os.remove(os.path.join(wd, fn))
    rc, out = sh([HARNESS, "opt-run", "--specs", sp, "--cases", cases, "--report", rep], timeout=3000)
    res = dict(metas=[], findings=[], mismatches=[], ok=0)
    if rc != 0:
        res["mismatches"].append(dict(engine="opt", case="(harness)", what="harness opt-run failed: " + out[-500:]))
        return res
    hang = None
    for l in open(rep):
        l = l.rstrip("\n")
        if l.startswith("HANG "):
            hang = l[5:]
            res["mismatches"].append(dict(engine="opt", case=hang, what="the implementation did not return on this case; the model does"))
        elif l.startswith("M "):
            spec, _, stats = l[2:].partition(" | ")
            kv = dict(t.split("=", 1) for t in stats.split() if "=" in t)
            res["metas"].append((spec, kv))
        elif l.startswith("FINDING "):
            parts = l[8:].split(" | ", 2)
            if len(parts) == 3:
                res["findings"].append(dict(engine="opt", properties=parts[0].split(","), case=parts[1], what=parts[2]))
    # the model, sharded over the case files
    import concurrent.futures
    shards = sorted(os.path.join(wd, fn) for fn in os.listdir(wd) if fn.startswith("cases_%s." % tag))
    if hang:
        for p in shards:
            os.remove(p)
        return res

    def run_shard(p):
        env = dict(os.environ)
        if coqeval:
            env["VH_LIBM_LOG"] = "1"   # the libm values of each case, for the evaluation inside Coq
        pr = subprocess.run([DRIVER, "opt", p], stdout=subprocess.PIPE, stderr=subprocess.STDOUT, env=env, timeout=3000)
        return pr.returncode, pr.stdout.decode("utf-8", "replace")

    verdicts = {}
    libm = {}
    with concurrent.futures.ThreadPoolExecutor(max_workers=16) as ex:
        for rc, out in ex.map(run_shard, shards):
            if rc != 0:
                res["mismatches"].append(dict(engine="opt", case="(driver)", what="driver failed: " + out[-500:]))
                continue
            pending = []
            for l in out.split("\n"):
                if l.startswith("Q "):
                    pending.append(l[2:].split(" "))
                if l.startswith("R "):
                    spec, _, verdict = l[2:].partition(" | ")
                    verdicts[spec] = verdict
                    libm[spec] = pending
                    pending = []
                    if verdict.startswith("OK"):
                        res["ok"] += 1
                    else:
                        res["mismatches"].append(dict(engine="opt", case=spec, what="model/implementation disagree: " + verdict))
    # zero-temperature runs replayed by the model INSIDE Coq (no extraction, no OCaml)
    if coqeval and shards:
        import eng_coqeval
        tot = dict(cases=0, agree=0, problems=[])
        for p in shards:
            if tot["cases"] >= coqeval:
                break
            r = eng_coqeval.run_opt(prop, p, min(3, coqeval - tot["cases"]), verdicts, libm)
            tot["cases"] += r["cases"]
            tot["agree"] += r["agree"]
            tot["problems"] += r["problems"]
        res["coq_eval"] = tot
        for pr in tot["problems"]:
            res["mismatches"].append(dict(engine="opt", case="(in-Coq evaluation)", what=pr))
    for p in shards:
        os.remove(p)
    return res


LIBM_EXPECT = ["0000000000000000", "7ff0000000000000", "nan", "3ff0000000000000", "3ff0000000000000",
               "3ff0000000000000", "3ff0000000000000", "0000000000000000", "7ff0000000000000", "0000000000000000",
               "0000000000000000", "400921fb54442d18", "0000000000000000", "3ff0000000000000"]
LIBM_NAMES = ["exp(-inf)", "exp(+inf)", "exp(NaN)", "exp(0)", "exp(-0)", "min(NaN,1)", "min(inf,1)", "max(0,NaN)", "pow(inf,0.5)",
              "pow(0,0.5)", "acos(1)", "acos(-1)", "sin(0)", "cos(0)"]


def libm_premises():
    """the facts about the platform's math library that theorems take as hypotheses (exp(-inf) = 0, ...), on both
    sides of the correspondence: Rust's std through the harness, OCaml's runtime through the driver"""
    problems = []
    for who, cmd in (("implementation side (Rust std)", [HARNESS, "libm"]), ("model side (OCaml runtime)", [DRIVER, "libm"])):
        rc, out = sh(cmd, timeout=60)
        toks = out.strip().split("\n")[-1].split() if rc == 0 else []
        if len(toks) != len(LIBM_EXPECT):
            problems.append("%s: could not read the math-library probes" % who)
            continue
        for name, got, want in zip(LIBM_NAMES, toks, LIBM_EXPECT):
            isnan = got.lower()[:3] in ("7ff", "fff") and got.lower() not in ("7ff0000000000000", "fff0000000000000")
            if (want == "nan" and not isnan) or (want != "nan" and got.lower() != want):
                problems.append("%s: %s = %s, the theorems assume %s" % (who, name, got, want))
    return problems


def opt_engine(prop, conf, params, tier, seed, broken_gate):
    focus = params["focus"]
    count = params[tier]
    corpus = read_specs(os.path.join(ROOT, "corpus", "opt.txt"))
    rc, out = sh([HARNESS, "opt-gen", "--focus", focus, "--seed", str(seed), "--count", str(count)], timeout=600)
    specs = corpus + [l for l in out.split("\n") if l.startswith("opt ")]
    r = opt_run(prop, specs, "main", coqeval=params.get("coqeval_" + tier, 0))
    for pr in libm_premises():
        r["mismatches"].append(dict(engine="opt", case="(math library premises)", what=pr))
    searched = len(specs)
    relevant = [f for f in r["findings"] if prop in f["properties"]]
    if (r["mismatches"] or broken_gate) and not relevant:
        # search harder for a concrete failing input: more cases of the same focus, other seeds
        rc, out = sh([HARNESS, "opt-gen", "--focus", focus, "--seed", str(seed + 7919), "--count", str(4 * count)], timeout=600)
        more = [l for l in out.split("\n") if l.startswith("opt ")]
        r2 = opt_run(prop, more, "search")
        searched += len(more)
        relevant = [f for f in r2["findings"] if prop in f["properties"]]
        r["metas"] += r2["metas"]
        r["mismatches"] += r2["mismatches"]
        r["ok"] += r2["ok"]
    nontrivial = set()
    dist = dict(scripts={}, outcomes={}, states={}, accepts=0, rejects=0, none_scores=0, clamped=0,
                boundary_decisions=0, converged_early=0, inference_inconclusive=0, multi_loop=0, random_stream_not_followed=0)
    for spec, kv in r["metas"]:
        m = re.search(r"script=(\w+)", spec)
        key = m.group(1) if m else "real"
        dist["scripts"][key] = dist["scripts"].get(key, 0) + 1
        dist["outcomes"][kv.get("outcome", "?")] = dist["outcomes"].get(kv.get("outcome", "?"), 0) + 1
        for k in ("accepts", "rejects", "clamped"):
            dist[k] += int(kv.get(k, 0))
        dist["none_scores"] += int(kv.get("none", 0))
        dist["boundary_decisions"] += int(kv.get("boundary", 0))
        dist["converged_early"] += 1 if kv.get("early") == "true" else 0
        dist["inference_inconclusive"] += 1 if kv.get("amb") == "true" else 0
        dist["random_stream_not_followed"] += 1 if kv.get("desync") == "true" else 0
        dist["multi_loop"] += 1 if int(kv.get("loops", 0)) > 1 else 0
        if int(kv.get("accepts", 0)) > 0 and int(kv.get("rejects", 0)) > 0:
            nontrivial.add(re.sub(r"^opt id=\S+ ", "", spec))
    return dict(
        evaluations=len(r["metas"]),
        distinct_nontrivial=len(nontrivial),
        rule=("cases = corpus/opt.txt then `vharness opt-gen --focus %s --seed S`: scripted score landscapes "
              "(smooth, plateau, forced accept/reject rates per loop, threshold-aware boundary proposals, NaN answers) "
              "and real hard/LJ states of all 7 groups; a case is non-trivial when its inferred history has at least one "
              "accepted and one rejected proposal; distinct = distinct case specification" % focus),
        samples=[s for s, _ in r["metas"][:3]] + [s for s, _ in r["metas"][-2:]],
        findings=relevant,
        mismatches=r["mismatches"],
        distribution=dist,
        correspondence=dict(engine="opt", cases=len(r["metas"]), bit_exact_agreement=r["ok"],
                            disagreements=len(r["mismatches"]), strength="bit-exact parameter vector at every score() call, final state, outcome",
                            evaluated_inside_coq=r.get("coq_eval", {}).get("cases", 0), inside_coq_agree=r.get("coq_eval", {}).get("agree", 0)),
        searched=searched,
        notes=[],
    )


ENGINES = {"opt": opt_engine}



# ------------------------------------------------------------------------------------------
# tables engine (C16, C10 labels): the same facts the vm_compute theorems decide, evaluated per
# group on the dumped data, so that a broken theorem comes with the table entry that breaks it.

from fractions import Fraction
import struct

H = Fraction(1, 2)
ITA = {  # International Tables A, plane groups 1,2,3,4,6,7,8: general positions (typed independently)
    "p1": ("Monoclinic", [((1, 0, 0, 1), (0, 0))]),
    "p2": ("Monoclinic", [((1, 0, 0, 1), (0, 0)), ((-1, 0, 0, -1), (0, 0))]),
    "p1m1": ("Orthorhombic", [((1, 0, 0, 1), (0, 0)), ((-1, 0, 0, 1), (0, 0))]),
    "p1g1": ("Orthorhombic", [((1, 0, 0, 1), (0, 0)), ((-1, 0, 0, 1), (0, H))]),
    "p2mm": ("Orthorhombic", [((1, 0, 0, 1), (0, 0)), ((-1, 0, 0, -1), (0, 0)), ((-1, 0, 0, 1), (0, 0)), ((1, 0, 0, -1), (0, 0))]),
    "p2mg": ("Orthorhombic", [((1, 0, 0, 1), (0, 0)), ((-1, 0, 0, -1), (0, 0)), ((-1, 0, 0, 1), (H, 0)), ((1, 0, 0, -1), (H, 0))]),
    "p2gg": ("Orthorhombic", [((1, 0, 0, 1), (0, 0)), ((-1, 0, 0, -1), (0, 0)), ((-1, 0, 0, 1), (H, H)), ((1, 0, 0, -1), (H, H))]),
}


def _fr(h):
    return Fraction(struct.unpack(">d", bytes.fromhex(h))[0])


def _op(m):
    v = [_fr(h) for h in m]
    return ((v[0], v[1], v[3], v[4]), (v[2], v[5])), (v[6], v[7], v[8])


def _opstr(g, k):
    """the source string of operation k (a tree under test may list more operations than strings)"""
    s = g.get("ops_str") or []
    return s[k] if k < len(s) else "?"


def _comp(a, b):
    (a0, a1, a2, a3), (s0, s1) = a
    (b0, b1, b2, b3), (u0, u1) = b
    return ((a0 * b0 + a1 * b2, a0 * b1 + a1 * b3, a2 * b0 + a3 * b2, a2 * b1 + a3 * b3),
            (a0 * u0 + a1 * u1 + s0, a2 * u0 + a3 * u1 + s1))


def _eqmod(a, b):
    return a[0] == b[0] and all((x - y).denominator == 1 for x, y in zip(a[1], b[1]))


def tables_engine(prop, conf, params, tier, seed, broken_gate):
    d = json.load(open(os.path.join(CACHE, "dump.json")))
    findings, samples, evals, nontriv = [], [], 0, set()
    want_labels = params.get("labels", False)
    want_groups = params.get("groups", True)
    names = [g["cli"] for g in d["groups"]]
    if want_groups and names != list(ITA):
        findings.append(dict(engine="tables", properties=["C16"], case="tables groups=%s" % ",".join(names),
                             what="the supported groups are %s, expected %s" % (names, list(ITA))))
    for g in d["groups"]:
        cli = g["cli"]
        case = "tables group=%s" % cli
        evals += 1
        samples.append("%s name=%s family=%s ops=%s" % (case, g["name"], g["family"], g["ops_str"]))
        if want_labels and g["name"] != cli:
            findings.append(dict(engine="tables", properties=["C10"], case=case,
                                 what="the group requested as %s is labelled %s in the written structure" % (cli, g["name"])))
        if not want_groups or cli not in ITA:
            continue
        fam, spec = ITA[cli]
        if g["family"] != fam:
            findings.append(dict(engine="tables", properties=["C16", "C04"], case=case,
                                 what="group %s is paired with family %s, its operations leave %s cells invariant" % (cli, g["family"], fam)))
        if g.get("ops_error"):
            findings.append(dict(engine="tables", properties=["C16"], case=case, what="operations do not parse: %s" % g["ops_error"]))
            continue
        ops = []
        for k, m in enumerate(g["ops"]):
            o, bottom = _op(m)
            ops.append(o)
            evals += 1
            nontriv.add((cli, k))
            # (all zero as Matrix3::zeros() leaves it, or the (0, 0, 1) of a homogeneous matrix: the same affine map)
            if any(x != 0 for x in bottom[:2]) or bottom[2] not in (0, 1):
                findings.append(dict(engine="tables", properties=["C16"], case=case + " op=%d" % k,
                                     what="operation %d (%s) has a non-zero bottom row %s" % (k, _opstr(g, k), bottom)))
        if len(ops) != len(spec):
            findings.append(dict(engine="tables", properties=["C16"], case=case,
                                 what="%d operations, the plane group has order %d" % (len(ops), len(spec))))
        for k, (o, s) in enumerate(zip(ops, spec)):
            s = (tuple(Fraction(x) for x in s[0]), tuple(Fraction(x) for x in s[1]))
            if o != s:
                findings.append(dict(engine="tables", properties=["C16"], case=case + " op=%d" % k,
                                     what="operation %d is %s = %s, International Tables give %s" % (
                                         k, _opstr(g, k), [[str(x) for x in o[0]], [str(x) for x in o[1]]],
                                         [[str(x) for x in s[0]], [str(x) for x in s[1]]])))
        # group axioms modulo Z^2 on the code's own operations
        for i, a in enumerate(ops):
            for j, b in enumerate(ops):
                evals += 1
                c = _comp(a, b)
                if not any(_eqmod(c, x) for x in ops):
                    findings.append(dict(engine="tables", properties=["C16"], case=case + " ops=%d,%d" % (i, j),
                                         what="the composition of operations %d and %d is not in the table (modulo lattice translations)" % (i, j)))
    return dict(
        evaluations=evals, distinct_nontrivial=len(nontriv),
        rule="every group the code supports (WallpaperGroups::variants()), every operation WyckoffSite::new parses, every "
             "ordered pair of operations; compared with the International Tables entries typed into bin/engines.py "
             "(and, in Coq, into model/Spec.v); non-trivial = distinct (group, operation); the domain is finite and "
             "enumerated completely",
        samples=samples[:7], findings=[f for f in findings if prop in f["properties"]], mismatches=[],
        distribution=dict(groups=len(d["groups"]), operations=len(nontriv)),
        correspondence=dict(engine="tables", strength="regeneration: coq/gen/GenTables.v is rewritten from `vharness dump` and the vm_compute theorems are re-checked"),
        searched=evals, notes=[], exhaustive=True)


ENGINES["tables"] = tables_engine

import eng_parse
ENGINES["parse"] = eng_parse.run
import eng_geom
ENGINES["geom"] = eng_geom.run
import eng_cli
ENGINES["cli"] = eng_cli.run


def run_engines(prop, conf, tier, seed, broken_gate=False):
    total = dict(evaluations=0, distinct_nontrivial=0, rule="", samples=[], findings=[], mismatches=[],
                 distribution={}, correspondence={}, searched=0, notes=[])
    rules = []
    for name, params in conf["engines"]:
        try:
            r = ENGINES[name](prop, conf, params, tier, seed, broken_gate)
        except Exception as e:            # an engine that cannot digest what this tree produces: the tie no longer checks
            import traceback
            tb = traceback.format_exc().strip().split("\n")
            r = dict(evaluations=0, distinct_nontrivial=0, rule="(engine failed)", samples=[], findings=[],
                     mismatches=[dict(engine=name, case="(%s engine)" % name,
                                      what="the %s engine could not process what this tree produces: %s: %s [%s]"
                                           % (name, type(e).__name__, e, tb[-3].strip() if len(tb) >= 3 else ""))])
        total["evaluations"] += r["evaluations"]
        total["distinct_nontrivial"] += r["distinct_nontrivial"]
        rules.append("[%s] %s" % (name, r["rule"]))
        total["samples"] += r["samples"]
        total["findings"] += r["findings"]
        total["mismatches"] += r["mismatches"]
        total["distribution"][name] = r.get("distribution", {})
        total["correspondence"][name] = r.get("correspondence", {})
        total["searched"] += r.get("searched", 0)
        total["notes"] += r.get("notes", [])
        if r.get("exhaustive"):
            total["exhaustive"] = True
    total["rule"] = " ; ".join(rules)
    return total


def run_replay(prop, conf, path):
    payload = json.load(open(path))
    case = payload.get("case") or payload.get("first_disagreeing_case")
    total = dict(evaluations=0, distinct_nontrivial=0, rule="replay of " + path, samples=[case], findings=[],
                 mismatches=[], distribution={}, correspondence={}, searched=1, notes=[])
    if not case:
        total["notes"].append("replay file names no case; re-running the tier and seed it was written by")
        return run_engines(prop, conf, payload.get("tier") or "quick", int(payload.get("seed") or 0))
    if case.startswith("opt "):
        r = opt_run(prop, [case], "replay")
        total["evaluations"] = len(r["metas"])
        total["findings"] = [f for f in r["findings"] if prop in f["properties"]]
        total["mismatches"] = r["mismatches"]
    else:
        done = False
        for name, fn in REPLAYERS.items():
            if case.startswith(name + " "):
                r = fn(prop, conf, case)
                total["evaluations"] = r["evaluations"]
                total["findings"] = r["findings"]
                total["mismatches"] = r["mismatches"]
                done = True
        if not done:
            # command-line and table cases are not replayed one by one: the whole quick tier runs again (the case is in it:
            # the cli engine's cases are drawn from the seed, the table engine's domain is finite and enumerated)
            total = run_engines(prop, conf, payload.get("tier") or "quick", int(payload.get("seed") or 0))
            total.setdefault("notes", []).append("replay of a %s case: the quick tier was re-run" % case.split(" ")[0])
    return total


REPLAYERS = {"parse": eng_parse.replay, "geom": eng_geom.replay}
