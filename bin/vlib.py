# vlib.py - shared machinery of bin/check and bin/setup: builds, proof gate, evidence.
import fcntl
import hashlib
import json
import os
import re
import subprocess
import sys
import time

ROOT = os.path.dirname(os.path.dirname(os.path.abspath(__file__)))
CACHE = os.path.join(ROOT, ".cache")
COQ = os.path.join(ROOT, "coq")
TARGET = os.path.join(CACHE, "target")
HARNESS = os.path.join(TARGET, "release", "vharness")
DRIVER = os.path.join(CACHE, "ocaml", "driver")
REPO = os.environ.get("VERIF_REPO", "/repo")   # /repo unless a scratch copy is being checked (vp run --with-repo)

ENV = dict(os.environ)
ENV.update({
    "CARGO_TARGET_DIR": TARGET,
    "CARGO_NET_OFFLINE": "true",
    "RUSTFLAGS": ENV.get("RUSTFLAGS", ""),
    "LC_ALL": "C",
})


class Lock:
    """One build at a time (checks may be started concurrently)."""

    def __init__(self, name="build"):
        os.makedirs(CACHE, exist_ok=True)
        self.path = os.path.join(CACHE, name + ".lock")

    def __enter__(self):
        self.f = open(self.path, "w")
        fcntl.flock(self.f, fcntl.LOCK_EX)
        return self

    def __exit__(self, *a):
        fcntl.flock(self.f, fcntl.LOCK_UN)
        self.f.close()


def sh(cmd, cwd=None, timeout=1800, env=None, check=False):
    """run a command, return (rc, stdout+stderr)"""
    try:
        p = subprocess.run(cmd, cwd=cwd, env=env or ENV, stdout=subprocess.PIPE,
                           stderr=subprocess.STDOUT, timeout=timeout,
                           shell=isinstance(cmd, str))
        out = p.stdout.decode("utf-8", "replace")
        rc = p.returncode
    except subprocess.TimeoutExpired as e:
        out = (e.stdout or b"").decode("utf-8", "replace") + "\n[timeout after %ss]" % timeout
        rc = 124
    if check and rc != 0:
        sys.stderr.write(out[-4000:])
        raise SystemExit("command failed: %s" % (cmd,))
    return rc, out


def build_harness():
    """Rebuild the harness (and with it the `packing` crate) from /repo's working tree."""
    with Lock():
        lock_src = os.path.join(REPO, "Cargo.lock")
        lock_dst = os.path.join(ROOT, "harness", "Cargo.lock")
        # keep the harness on the dependency versions /repo pins
        if not os.path.exists(lock_dst):
            import shutil
            shutil.copy(lock_src, lock_dst)
        hdir = os.path.join(ROOT, "harness")
        if REPO != "/repo":
            # a scratch copy of the repository: build a copy of the harness that depends on it
            import shutil
            alt = os.path.join(CACHE, "harness-alt")
            shutil.rmtree(alt, ignore_errors=True)
            shutil.copytree(hdir, alt, ignore=shutil.ignore_patterns("target"))
            t = open(os.path.join(alt, "Cargo.toml")).read().replace('path = "/repo"', 'path = "%s"' % REPO)
            open(os.path.join(alt, "Cargo.toml"), "w").write(t)
            hdir = alt
        rc, out = sh(["cargo", "build", "--release", "--offline"], cwd=hdir, timeout=1500)
        return rc, out


def build_cli():
    """The `packing` binary, built from /repo's working tree into the cache (never /repo/target)."""
    with Lock():
        env = dict(ENV)
        env["CARGO_TARGET_DIR"] = os.path.join(CACHE, "repo-target")
        rc, out = sh(["cargo", "build", "--release", "--offline", "--bin", "packing"], cwd=REPO,
                     timeout=1500, env=env)
        return rc, out, os.path.join(CACHE, "repo-target", "release", "packing")


def coq_makefile():
    mk = os.path.join(COQ, "Makefile")
    proj = os.path.join(COQ, "_CoqProject")
    if (not os.path.exists(mk)) or os.path.getmtime(mk) < os.path.getmtime(proj):
        sh(["coq_makefile", "-f", "_CoqProject", "-o", "Makefile"], cwd=COQ, check=True)


def coq_make(targets, timeout=2400, force=()):
    """Full .vo build of the given targets (never -vos/-vok).  `force` files are recompiled
    so that their Print Assumptions output is captured on every run."""
    with Lock():
        coq_makefile()
        for f in force:
            for ext in (".vo", ".vok", ".vos", ".glob"):
                p = os.path.join(COQ, f[:-2] + ext)
                if os.path.exists(p):
                    os.remove(p)
        rc, out = sh(["make", "-j16"] + list(targets), cwd=COQ, timeout=timeout)
        return rc, out


def build_driver():
    with Lock():
        model = os.path.join(COQ, "extract", "model.ml")
        srcs = [model] + [os.path.join(ROOT, "ocaml", f) for f in os.listdir(os.path.join(ROOT, "ocaml"))
                          if f.endswith(".ml")]
        if os.path.exists(DRIVER) and all(os.path.getmtime(DRIVER) >= os.path.getmtime(s) for s in srcs if os.path.exists(s)):
            return 0, ""
        return sh([os.path.join(ROOT, "ocaml", "build.sh"), os.path.join(CACHE, "ocaml")], timeout=900)


# ------------------------------------------------------------------------------------------
# proof gate

FORBIDDEN = re.compile(
    r"\b(Admitted|admit|Axiom|Axioms|Parameter|Parameters|Conjecture|Conjectures|Admit\s+Obligations|"
    r"bypass_check|Unset\s+Guard\s+Checking|Unset\s+Positivity\s+Checking|Unset\s+Universe\s+Checking|"
    r"type-in-type|impredicative-set)\b")
SECTION_ONLY = re.compile(r"^\s*(Variable|Variables|Hypothesis|Hypotheses|Context)\b")


def strip_comments(src):
    out = []
    depth = 0
    i = 0
    while i < len(src):
        if src.startswith("(*", i):
            depth += 1
            i += 2
        elif src.startswith("*)", i) and depth > 0:
            depth -= 1
            i += 2
        else:
            if depth == 0:
                out.append(src[i])
            elif src[i] == "\n":
                out.append("\n")
            i += 1
    return "".join(out)


def forbidden_scan():
    """No axiom-like declaration, no admitted proof, no switched-off kernel check anywhere;
    Variable/Hypothesis/Context only inside a Section."""
    hits = []
    for dp, dn, fn in os.walk(COQ):
        for f in fn:
            if not f.endswith(".v"):
                continue
            path = os.path.join(dp, f)
            src = strip_comments(open(path).read())
            depth = 0
            for ln, line in enumerate(src.split("\n"), 1):
                if re.match(r"^\s*Section\b", line):
                    depth += 1
                if re.match(r"^\s*End\b", line) and depth > 0:
                    # End of a Section or Module; modules are not used with Variables here
                    depth -= 1
                m = FORBIDDEN.search(line)
                if m:
                    hits.append("%s:%d: %s" % (os.path.relpath(path, ROOT), ln, m.group(0)))
                if SECTION_ONLY.match(line) and depth == 0:
                    hits.append("%s:%d: %s outside a section" % (os.path.relpath(path, ROOT), ln, line.strip()[:40]))
    proj = open(os.path.join(COQ, "_CoqProject")).read()
    if re.search(r"type-in-type|impredicative-set|-vos|-vok", proj):
        hits.append("_CoqProject: forbidden flag")
    return hits


# axioms a theorem may depend on: declared by the standard library / Flocq, never by this development
ALLOWED_AXIOMS = [
    r"^ClassicalDedekindReals\.sig_forall_dec$",
    r"^ClassicalDedekindReals\.sig_not_dec$",
    r"^FunctionalExtensionality\.functional_extensionality_dep$",
    r"^Classical_Prop\.classic$",
    r"^(Coq\.Floats\.)?FloatAxioms\.\w+$",
    r"^(Coq\.Floats\.)?PrimFloat\.\w+$",
    r"^FloatOps\.\w+$",
    r"^PrimInt63\.\w+$",
    r"^Uint63\.\w+$",
    r"^(Coq\.Numbers\.Cyclic\.Int63\.)?(Uint63|PrimInt63|Sint63)\.\w+$",
    r"^ProofIrrelevance\.proof_irrelevance$",
    r"^Eqdep\.Eq_rect_eq\.eq_rect_eq$",
    r"^JMeq\.JMeq_eq$",
    r"^(Coq\.Floats\.)?\w+_spec$",
    # the primitive float type/operations and FloatAxioms, as printed when Floats is imported
    # (unqualified).  This development declares no axiom itself (forbidden_scan), so these names can
    # only be the standard library's primitives.
    r"^(Prim2SF_SF2Prim|Prim2SF_valid|SF2Prim_Prim2SF|Prim2SF_inj|SF2Prim_inj)$",
    r"^(float|abs|add|sub|mul|div|sqrt|opp|eqb|ltb|leb|compare|classify|of_uint63|normfr_mantissa|"
    r"frshiftexp|ldshiftexp|next_up|next_down|float_class|float_comparison)$",
    r"^(int|lsl|lsr|land|lor|lxor|addc|subc|mulc|diveucl|addmuldiv|head0|tail0|compares|eqbs|ltbs|lebs)$",
]


def parse_assumptions(out):
    """Split coqc output into the blocks printed by `Print Assumptions`.
    Returns list of ('closed', []) or ('axioms', [names])."""
    blocks = []
    lines = out.split("\n")
    i = 0
    while i < len(lines):
        l = lines[i]
        if l.startswith("Closed under the global context"):
            blocks.append(("closed", []))
        elif l.startswith("Axioms:"):
            names = []
            i += 1
            while i < len(lines) and lines[i].strip() != "" and not lines[i].startswith(("Closed under", "Axioms:", "COQC", "make")):
                m = re.match(r"^([A-Za-z_][\w\.']*)\s*(:|$)", lines[i])
                if m and not lines[i].startswith(" "):
                    names.append(m.group(1))
                i += 1
            blocks.append(("axioms", names))
            continue
        i += 1
    return blocks


def axioms_ok(names):
    bad = [n for n in names if not any(re.match(p, n) for p in ALLOWED_AXIOMS)]
    return bad


def count_theorems(path):
    src = strip_comments(open(path).read())
    return re.findall(r"^\s*(?:Theorem|Lemma|Example|Corollary)\s+([\w']+)", src, re.M)


def proof_gate(prop_file, extra_targets=()):
    """Compile props/<file> (forced) with everything it depends on; check statements compiled,
    Print Assumptions within the allowlist, forbidden-token scan clean."""
    t0 = time.time()
    res = {"file": prop_file, "ok": False, "theorems": [], "axioms": [], "problems": []}
    hits = forbidden_scan()
    if hits:
        res["problems"] += ["forbidden: " + h for h in hits[:10]]
    target = prop_file[:-2] + ".vo"
    rc, out = coq_make([target] + list(extra_targets), force=[prop_file])
    res["log_tail"] = out[-3000:]
    path = os.path.join(COQ, prop_file)
    thms = count_theorems(path)
    res["theorems"] = thms
    if rc != 0:
        m = re.search(r'File "([^"]+)", line (\d+)[^\n]*\n(?:.*\n){0,12}?Error:?\s*([^\n]*(?:\n[^\n]+){0,6})', out)
        res["problems"].append("coq build failed: " + (m.group(0)[:1500] if m else out[-1500:]))
        res["failed_file"] = m.group(1) if m else None
        res["wall_s"] = time.time() - t0
        return res
    blocks = parse_assumptions(out)
    allax = set()
    for kind, names in blocks:
        for n in names:
            allax.add(n)
    res["axioms"] = sorted(allax)
    res["assumption_blocks"] = len(blocks)
    bad = axioms_ok(sorted(allax))
    if bad:
        res["problems"].append("axioms outside the allowlist: " + ", ".join(bad))
    src = strip_comments(open(path).read())
    n_print = len(re.findall(r"Print Assumptions", src))
    if len(blocks) < n_print:
        res["problems"].append("Print Assumptions produced %d blocks for %d commands" % (len(blocks), n_print))
    res["ok"] = not res["problems"]
    res["wall_s"] = time.time() - t0
    return res


COQCHK_ALLOWED = [
    r"^Coq\.Floats\.(FloatAxioms|PrimFloat)\.(Leibniz\.)?\w+$",
    r"^Coq\.Numbers\.Cyclic\.Int63\.(Uint63|PrimInt63|Sint63)\.\w+$",
    r"^Coq\.Reals\.ClassicalDedekindReals\.(sig_forall_dec|sig_not_dec)$",
    r"^Coq\.Logic\.FunctionalExtensionality\.functional_extensionality_dep$",
    r"^Coq\.Logic\.Classical_Prop\.classic$",
    r"^Coq\.Logic\.ProofIrrelevance\.proof_irrelevance$",
    r"^Coq\.Logic\.Eqdep\.Eq_rect_eq\.eq_rect_eq$",
    r"^Coq\.Logic\.JMeq\.JMeq_eq$",
]


def coqchk_gate(prop_file):
    """Thorough tier: re-check the compiled props module and everything it depends on with the independent
    checker `coqchk`, and compare the axioms IT reports (for the whole context) with the allowlist."""
    t0 = time.time()
    mod = "PV." + prop_file[:-2].replace("/", ".")
    rc, out = sh(["coqchk", "-silent", "-o", "-Q", ".", "PV", mod], cwd=COQ, timeout=1500)
    res = {"module": mod, "ok": False, "axioms": [], "problems": [], "wall_s": 0}
    if rc != 0:
        res["problems"].append("coqchk failed: " + out[-800:])
    else:
        m = re.search(r"\* Axioms:(.*?)\n\s*\n\* ", out, re.S)
        names = [l.strip() for l in (m.group(1).split("\n") if m else []) if l.strip() and l.strip() != "<none>"]
        res["axioms"] = names
        bad = [n for n in names if not any(re.match(p, n) for p in COQCHK_ALLOWED)]
        if bad:
            res["problems"].append("coqchk reports axioms outside the allowlist: " + ", ".join(bad[:10]))
        for label in ("type-in-type", "unsafe (co)fixpoints", "positivity is assumed"):
            mm = re.search(re.escape(label) + r":\s*(\S+)", out)
            if not mm or mm.group(1) != "<none>":
                res["problems"].append("coqchk: %s: %s" % (label, mm.group(1) if mm else "section not found"))
    res["ok"] = not res["problems"]
    res["wall_s"] = time.time() - t0
    return res


# ------------------------------------------------------------------------------------------
# known findings, replays, evidence

def known_findings():
    p = os.path.join(ROOT, "known_findings.json")
    if not os.path.exists(p):
        return []
    return json.load(open(p)).get("findings", [])


def write_replay(prop, payload):
    d = os.path.join(ROOT, "replays")
    os.makedirs(d, exist_ok=True)
    blob = json.dumps(payload, indent=1, sort_keys=True)
    h = hashlib.sha1(blob.encode()).hexdigest()[:10]
    path = os.path.join(d, "%s-%s.json" % (prop, h))
    with open(path, "w") as f:
        f.write(blob + "\n")
    return path


def write_evidence(prop, ev):
    d = os.path.join(ROOT, "evidence")
    os.makedirs(d, exist_ok=True)
    path = os.path.join(d, "%s.json" % prop)
    with open(path, "w") as f:
        json.dump(ev, f, indent=1, sort_keys=True)
        f.write("\n")
    return path


def workdir(prop):
    d = os.path.join(CACHE, "work", prop)
    os.makedirs(d, exist_ok=True)
    return d
