# eng_geom.py - the `geom` engine (C01 C02 C03 C04 C12 C13 C14 C15): the extracted geometry model
# (NumF instance of coq/model/Geom.v) against the implementation on generated states and placed pairs,
# plus the harness's direct monitors (independent oracles: International Tables, separating-axis
# separation, lattice sums).
import concurrent.futures
import os
import re

from vlib import *  # noqa


def run_specs(prop, specs, tag, coqeval=0):
    wd = workdir(prop)
    sp = os.path.join(wd, "gspecs_%s.txt" % tag)
    with open(sp, "w") as f:
        f.write("\n".join(specs) + "\n")
    cases = os.path.join(wd, "gcases_%s" % tag)
    rep = os.path.join(wd, "greport_%s.txt" % tag)
    for fn in os.listdir(wd):
        if fn.startswith("gcases_%s." % tag):
            os.remove(os.path.join(wd, fn))
    res = dict(metas=[], findings=[], mismatches=[], bit=0, tol=0, band=0)
    rc, out = sh([HARNESS, "geom-run", "--specs", sp, "--cases", cases, "--report", rep], timeout=3000)
    if rc != 0:
        res["mismatches"].append(dict(engine="geom", case="(harness)", what="vharness geom-run failed: " + out[-500:]))
        return res
    for l in open(rep):
        l = l.rstrip("\n")
        if l.startswith("M "):
            spec, _, meta = l[2:].partition(" | ")
            res["metas"].append((spec, meta))
        elif l.startswith("FINDING "):
            parts = l[8:].split(" | ", 2)
            if len(parts) == 3:
                # ("*": a case that did not finish concerns whichever property is being checked)
                props = [prop] if parts[0] == "*" else parts[0].split(",")
                res["findings"].append(dict(engine="geom", properties=props, case=parts[1], what=parts[2]))
        elif l.startswith("HANG "):
            res["hang"] = True
    shards = sorted(os.path.join(wd, fn) for fn in os.listdir(wd) if fn.startswith("gcases_%s." % tag))
    if res.get("hang"):
        # the harness stopped at the case that did not finish: the partial case files are not replayed
        for p in shards:
            os.remove(p)
        return res

    def run_shard(p):
        return sh([DRIVER, "geom", p], timeout=3000)

    verdicts = {}
    with concurrent.futures.ThreadPoolExecutor(max_workers=16) as ex:
        for rc, out in ex.map(run_shard, shards):
            if rc != 0:
                res["mismatches"].append(dict(engine="geom", case="(driver)", what="driver failed: " + out[-500:]))
                continue
            for l in out.split("\n"):
                if l.startswith("R "):
                    spec, _, verdict = l[2:].partition(" | ")
                    verdicts[spec] = verdict
                    if verdict.startswith("OK"):
                        res["bit" if "strength=bit" in verdict else "tol"] += 1
                        m = re.search(r"band=(\d+)", verdict)
                        res["band"] += int(m.group(1)) if m else 0
                    else:
                        res["mismatches"].append(dict(engine="geom", case=spec, what="model/implementation disagree: " + verdict[:700]))
    # the same model evaluated inside Coq (no extraction, no OCaml) on a sample of the hard-state cases
    if coqeval and shards:
        import eng_coqeval
        per = max(1, coqeval // min(len(shards), 4))
        tot = dict(cases=0, agree=0, problems=[])
        for p in shards[:4]:
            for r in (eng_coqeval.run_geom(prop, p, per, verdicts), eng_coqeval.run_pairs(prop, p, per, verdicts)):
                tot["cases"] += r["cases"]
                tot["agree"] += r["agree"]
                tot["problems"] += r["problems"]
        res["coq_eval"] = tot
        for pr in tot["problems"]:
            res["mismatches"].append(dict(engine="geom", case="(in-Coq evaluation)", what=pr))
    for p in shards:
        os.remove(p)
    return res


# Quantities the property itself fixes (C03: the score of a Lennard-Jones state is minus the lattice energy per molecule;
# C13: the energy of a pair is the shifted, truncated 12-6 law).  For these the model is more than a mirror of the code: it
# is proved to evaluate exactly that expression (C03_lj_score_formula, C13's law theorems), so an implementation whose
# value is FAR from the model's on a state - far beyond what rounding or a re-association of the sums can explain -
# returns the wrong value for that state: a concrete failing input.  Differences in the last digits stay what they
# are, a broken correspondence.
VALUE_QUANTITIES = {
    "C03": ["LJ score"],
    "C13": ["energy(a,b)", "energy(b,a)", "molecule energy(a,b)", "molecule energy(b,a)"],
}


def promote_value_mismatches(prop, mismatches, min_cases):
    names = VALUE_QUANTITIES.get(prop)
    if not names:
        return []
    hits = []
    for m in mismatches:
        for nm in names:
            mm = re.search(re.escape(nm) + r": model (\S+) \([^)]*\) impl (\S+) \(", m.get("what", ""))
            if not mm:
                continue
            try:
                a, b = float.fromhex(mm.group(1)), float.fromhex(mm.group(2))
            except ValueError:
                continue
            if a != a or b != b or abs(a) == float("inf") or abs(b) == float("inf"):
                continue
            scale = max(abs(a), abs(b))
            if scale >= 1e6 or scale == 0:
                continue          # (huge energies of nearly coincident particles are ill-conditioned)
            rel = abs(a - b) / scale
            if rel > 1e-6:
                hits.append((m["case"], nm, a, b, rel))
            break
    cases = sorted(set(h[0] for h in hits))
    if len(cases) < min_cases:
        return []
    out = []
    for case, nm, a, b, rel in hits[:6]:
        what = ("%s is %r; the expression the property names - %s, as the proved model evaluates it on this input - is %r "
                "(relative difference %.1e; %d cases differ by more than 1e-6)"
                % (nm, b, "minus the lattice energy per molecule" if prop == "C03" else "the shifted, truncated 12-6 pair energy",
                   a, rel, len(cases)))
        out.append(dict(engine="geom", properties=[prop], case=case, what=what))
    return out


def corpus():
    p = os.path.join(ROOT, "corpus", "geom.txt")
    return [l.strip() for l in open(p) if l.startswith("geom ")] if os.path.exists(p) else []


def run(prop, conf, params, tier, seed, broken_gate):
    specs = list(corpus())
    for focus, n in params[tier]:
        rc, out = sh([HARNESS, "geom-gen", "--focus", focus, "--seed", str(seed), "--count", str(n)], timeout=600)
        specs += [l for l in out.split("\n") if l.startswith("geom ")]
    coqeval = params.get("coqeval_" + tier, 0)
    r = run_specs(prop, specs, "main", coqeval=coqeval)
    searched = len(specs)
    relevant = [f for f in r["findings"] if prop in f["properties"]]
    if (r["mismatches"] or broken_gate) and not [f for f in relevant if "class=" not in f["what"]]:
        more = []
        for focus, n in params[tier]:
            rc, out = sh([HARNESS, "geom-gen", "--focus", focus, "--seed", str(seed + 7919), "--count", str(5 * n)], timeout=600)
            more += [l for l in out.split("\n") if l.startswith("geom ")]
        r2 = run_specs(prop, more, "search")
        searched += len(more)
        relevant += [f for f in r2["findings"] if prop in f["properties"]]
        for k in ("metas", "mismatches"):
            r[k] += r2[k]
        for k in ("bit", "tol", "band"):
            r[k] += r2[k]
    if not [f for f in relevant if "class=" not in f["what"]]:
        relevant += promote_value_mismatches(prop, r["mismatches"], 3)
    dist = dict(groups={}, kinds={}, shapes={}, scored=0, not_scored=0, pairs=0, clamped_sites=0, built_false=0)
    nontriv = set()
    for spec, meta in r["metas"]:
        m = re.search(r"group=(\w+)", spec)
        if m:
            dist["groups"][m.group(1)] = dist["groups"].get(m.group(1), 0) + 1
        m = re.search(r"shape=(\w+)", spec)
        if m:
            dist["shapes"][m.group(1)] = dist["shapes"].get(m.group(1), 0) + 1
        k = "pair" if "mode=pair" in spec else ("order" if "mode=order" in spec else ("lj" if "kind=lj" in spec else "hard"))
        dist["kinds"][k] = dist["kinds"].get(k, 0) + 1
        dist["scored"] += "scored=true" in meta
        dist["not_scored"] += "scored=false" in meta
        dist["pairs"] += "pair=true" in meta
        dist["clamped_sites"] += ("clampx=true" in meta or "clampy=true" in meta)
        dist["built_false"] += "built=false" in meta
        if "built=true" in meta or "pair=true" in meta or "order=true" in meta:
            nontriv.add(re.sub(r"^geom id=\S+ ", "", spec))
    return dict(
        evaluations=len(r["metas"]), distinct_nontrivial=len(nontriv),
        rule="cases = corpus/geom.txt then `vharness geom-gen --focus F --seed S` for the focuses of the property: states of all 7 "
             "groups x {regular and convex radial polygons, circle, trimers; LJ circle/trimers} with parameters injected through "
             "Deserialize (uniform in the optimiser's bounds, dense cells, the borders of the bounds, bound-clamped sites and "
             "orientations), targeted flat-cell states with copies near opposite faces, exactly aligned states, and placed pairs "
             "at contact distance +- delta (delta log-uniform 1e-13..1e-1), aligned/coincident/mirrored, optionally under a common "
             "rigid motion; for C09/C10 triples of variants of one state with scores equal, ulps apart or clearly different (the order of "
             "the states against the order of their scores, max under every bracketing); non-trivial = distinct case the implementation could build",
        samples=[s for s, _ in r["metas"][:3]] + [s for s, _ in r["metas"][-2:]],
        findings=relevant, mismatches=r["mismatches"], distribution=dist,
        correspondence=dict(engine="geom", cases=len(r["metas"]), bit_exact=r["bit"], within_rounding=r["tol"],
                            tolerance_band_decisions=r["band"], disagreements=len(r["mismatches"]),
                            evaluated_inside_coq=r.get("coq_eval", {}).get("cases", 0),
                            inside_coq_agree=r.get("coq_eval", {}).get("agree", 0),
                            strength="placements, images, areas and scores bit-exact (signed zeros identified) or within 1e-12; "
                                     "booleans equal unless the oracle separation is within 1e-9"),
        searched=searched, notes=[])


def replay(prop, conf, case):
    r = run_specs(prop, [case], "replay")
    fs = [f for f in r["findings"] if prop in f["properties"]]
    if not fs:
        fs = promote_value_mismatches(prop, r["mismatches"], 1)
    return dict(evaluations=len(r["metas"]), findings=fs, mismatches=r["mismatches"])
