# eng_parse.py - the `parse` engine (C17): Transform2::from_operations vs the extracted Coq model
# (bit-exact) on grammar strings and on arbitrary strings, plus an independent evaluator of the
# crystallographic notation as the direct monitor.
import itertools
import os
import random
import struct
from fractions import Fraction

from vlib import *  # noqa

DIGITS = "0123456789"


def hexs(s):
    b = s.encode("utf-8")
    return b.hex() if b else "-"


def fbits(h):
    return struct.unpack(">d", bytes.fromhex(h))[0]


# ---- the grammar (independent of the code): a component is a non-empty sequence of signed terms,
# x, y and a constant (d or d/d', d' != 0) each at most once.
def components(consts):
    """yield (text_variants..., (cx, cy, cc)) for every order/sign of the term subsets"""
    out = []
    terms = ["x", "y", "c"]
    for r in (1, 2, 3):
        for subset in itertools.permutations(terms, r):
            for signs in itertools.product([1, -1], repeat=r):
                cs = consts if "c" in subset else [None]
                for c in cs:
                    toks = []
                    val = {"x": Fraction(0), "y": Fraction(0), "c": Fraction(0)}
                    for t, sg in zip(subset, signs):
                        if t == "c":
                            num, den = c
                            core = "%d" % num if den is None else "%d/%d" % (num, den)
                            val["c"] = sg * (Fraction(num) if den is None else Fraction(num, den))
                        else:
                            core = t
                            val[t] = Fraction(sg)
                        toks.append((sg, core))
                    out.append((toks, (val["x"], val["y"], val["c"])))
    return out


def render(toks, rng, style):
    s = ""
    for i, (sg, core) in enumerate(toks):
        if sg < 0:
            sign = "-"
        else:
            sign = "" if (i == 0 and style != 2) else "+"
        if style == 0:
            s += sign + core
        elif style == 1:
            s += " " + sign + " " + core.replace("/", " / ") + " "
        else:
            sp = lambda: " " * rng.randrange(0, 3)  # noqa
            s += sp() + sign + sp() + core.replace("/", sp() + "/" + sp()) + sp()
    return s


def grammar_cases(rng, limit):
    consts = [(1, None), (0, None), (3, None), (1, 2), (1, 3), (2, 3), (3, 4), (1, 4), (9, 7), (5, 9)]
    comps = components(consts)
    cases = []
    # exhaustive over pairs would be ~ (#comps)^2; take every component once in each position with
    # a partner drawn at random, all three styles, with and without parentheses
    for k, (toks, val) in enumerate(comps):
        for pos in (0, 1):
            ptoks, pval = comps[rng.randrange(len(comps))]
            a, b = ((toks, val), (ptoks, pval)) if pos == 0 else ((ptoks, pval), (toks, val))
            style = k % 3
            text = render(a[0], rng, style) + "," + render(b[0], rng, style)
            par = rng.randrange(4)
            if par == 1:
                text = "(" + text + ")"
            elif par == 2:
                text = "((" + text + "))"
            cases.append((text, (a[1], b[1])))
    rng.shuffle(cases)
    return cases[:limit]


def mutate(s, rng):
    ops = rng.randrange(8)
    alphabet = "xy+-*/0123456789 (),.zXY\t"
    if not s:
        return rng.choice(alphabet)
    i = rng.randrange(len(s))
    if ops == 0:
        return s[:i] + s[i + 1:]
    if ops == 1:
        return s[:i] + s[i] + s[i:]
    if ops == 2:
        return s[:i] + rng.choice(alphabet) + s[i + 1:]
    if ops == 3:
        return s[:i] + rng.choice(alphabet) + s[i:]
    if ops == 4:
        return s + "," + rng.choice(["x", "y", "1/2", "", " "])
    if ops == 5:
        return s.replace("/", rng.choice(["*", "//", "/0", "/ 0"]), 1)
    if ops == 6:
        return s[:i] + rng.choice(["é", "−", "中", "\U0001f600", "\x00", " "]) + s[i:]
    return rng.choice(["(", ")", "()", ")(", " "]) + s + rng.choice(["(", ")", ",", ",,", " "])


def arbitrary_cases(rng, n, seeds):
    alphabet = "xy+-*/0123456789 (),"
    out = ["", ",", ",,", "x", "x,", "x,y,", ",x", "(,)", "x,y", "((x,y", "x,y))", "(x),(y)", "1/0,x", "x,1/0", "0/0,0/0",
           "x*2,y", "1*2,y", "2/3/4,y", "12,y", "1/23,y", "x-y,x+y", "xx,y", "-,-", "x,y ", " x,y", "x,y\n", "-x,-y+1/2",
           "9/9-x,7-y", "x,y,z", "é,x", "x,−y", "1/2 x,y", "x 1/2,y", "--x,y", "+-x,y", "-+x,y", "1-/2,y",
           "1/-2,y", "-1/-2,y", "1/2/,y", "/2,y", "*,y", "x+½,y", "x,y²", "٣,y", "x,３", "Ⅰ,y", "x/2,y/2",
           "1/2+x,1/2+y", "x+1/2,y+1/4", "-y+x,x", "-y+1/2,-x+1/2", "-x-y-1/2,-y-x"]
    for _ in range(n):
        k = rng.randrange(3)
        if k == 0:
            out.append("".join(rng.choice(alphabet) for _ in range(rng.randrange(0, 12))))
        elif k == 1:
            out.append(mutate(rng.choice(seeds), rng))
        else:
            out.append(mutate(mutate(rng.choice(seeds), rng), rng))
    return out


def run(prop, conf, params, tier, seed, broken_gate, only=None):
    rng = random.Random(seed * 7919 + 17)
    n_gram = params["grammar_" + tier]
    n_arb = params["arbitrary_" + tier]
    gram = grammar_cases(rng, n_gram)
    corpus = []
    cp = os.path.join(ROOT, "corpus", "parse.txt")
    if os.path.exists(cp):
        corpus = [l.rstrip("\n") for l in open(cp) if l.strip() and not l.startswith("#")]
    arb = corpus + arbitrary_cases(rng, n_arb, [g[0] for g in gram[:200]] or ["x,y"])
    if only is not None:
        gram, arb = [], [only]
    texts = [g[0] for g in gram] + arb
    expect = [g[1] for g in gram] + [None] * len(arb)
    wd = workdir(prop)
    cases = os.path.join(wd, "parse_cases.txt")
    with open(cases, "w") as f:
        for t in texts:
            f.write(hexs(t) + "\n")
    out_impl = os.path.join(wd, "parse_impl.txt")
    rc, o = sh([HARNESS, "parse-run", "--cases", cases, "--out", out_impl], timeout=1200)
    findings, mism = [], []
    if rc != 0:
        mism.append(dict(engine="parse", case="(harness)", what="vharness parse-run failed: " + o[-400:]))
        impl = []
    else:
        impl = [l.rstrip("\n") for l in open(out_impl)]
    rc, o = sh([DRIVER, "parse", cases], timeout=1200)
    model = o.split("\n")[:len(texts)] if rc == 0 else []
    if rc != 0:
        mism.append(dict(engine="parse", case="(driver)", what="driver parse failed: " + o[-400:]))
    dist = dict(grammar=len(gram), arbitrary=len(arb), impl_ok=0, impl_err=0, impl_panic=0, with_constant=0, with_spaces=0,
                with_parens=0, non_ascii=0)
    nontriv = set()
    for i, t in enumerate(texts):
        case = "parse hex=%s text=%r" % (hexs(t), t)
        im = impl[i] if i < len(impl) else "?"
        mo = model[i] if i < len(model) else "?"
        kind = im.split(" ")[0]
        dist["impl_ok"] += kind == "Ok"
        dist["impl_err"] += kind == "Err"
        dist["impl_panic"] += kind == "Panic"
        dist["with_spaces"] += " " in t
        dist["with_parens"] += "(" in t
        dist["non_ascii"] += any(ord(c) > 127 for c in t)
        if kind == "Panic":
            findings.append(dict(engine="parse", properties=["C17"], case=case, what="from_operations panicked on %r" % t))
            continue
        im_m = im.split(" | ")[0]
        if im_m != mo:
            mism.append(dict(engine="parse", case=case, what="model/implementation disagree on %r: impl %s, model %s" % (t, im_m[:80], mo[:80])))
        if expect[i] is not None:
            (ax, ay, ac), (bx, by, bc) = expect[i]
            want = [float(ax), float(ay), float(ac), float(bx), float(by), float(bc), 0.0, 0.0, 0.0]
            dist["with_constant"] += (ac != 0 or bc != 0)
            if kind != "Ok":
                findings.append(dict(engine="parse", properties=["C17"], case=case,
                                     what="the coordinate triplet %r is rejected (%s)" % (t, kind)))
                continue
            got = [fbits(h) for h in im_m.split(" ")[1:10]]
            if got != want:
                findings.append(dict(engine="parse", properties=["C17"], case=case,
                                     what="%r parses to rows %s, the expression denotes %s" % (t, got[:6], want[:6])))
                continue
            # the transform applied to probe points through the crate's own multiplication
            pts = [fbits(h) for h in im.split(" | ")[1].split(" ")]
            probes = [(0., 0.), (1., 0.), (0., 1.), (0.25, -0.75)]
            for k, (px, py) in enumerate(probes):
                ex = float(ax) * px + float(ay) * py + float(ac)
                ey = float(bx) * px + float(by) * py + float(bc)
                if abs(pts[2 * k] - ex) > 1e-12 or abs(pts[2 * k + 1] - ey) > 1e-12:
                    findings.append(dict(engine="parse", properties=["C17", "C15"], case=case,
                                         what="%r applied to (%g,%g) gives (%r,%r), the expression evaluates to (%r,%r)" % (
                                             t, px, py, pts[2 * k], pts[2 * k + 1], ex, ey)))
                    break
            nontriv.add(t)
        elif kind == "Ok":
            nontriv.add(t)
    # the same parser model evaluated inside Coq on a sample (grammar strings first, then arbitrary ones)
    import eng_coqeval
    ce = dict(cases=0, agree=0, problems=[])
    if impl and only is None:
        lim = 60 if tier == "quick" else 900
        half = lim // 2
        pick = list(range(min(half, len(gram)))) + list(range(len(gram), min(len(texts), len(gram) + half)))
        ce = eng_coqeval.run_parse(prop, [texts[i] for i in pick], [impl[i] if i < len(impl) else "?" for i in pick], lim)
        for pr in ce["problems"]:
            mism.append(dict(engine="parse", case="(in-Coq evaluation)", what=pr))
    return dict(
        evaluations=len(texts), distinct_nontrivial=len(nontriv),
        rule="grammar strings: every order and sign of the term subsets of {x, y, constant} with constants from a fixed set, "
             "three spacing styles, 0-2 outer parentheses, each with an independently evaluated expected matrix; arbitrary "
             "strings: corpus/parse.txt, hand-picked edge strings, random strings over the parser's alphabet and 1-2 mutations "
             "of grammar strings (dropped/duplicated/replaced characters, '*', '//', '/0', extra components, multi-byte and "
             "NUL characters); non-trivial = distinct string that parses (Ok)",
        samples=[repr(t) for t in texts[:3]] + [repr(t) for t in texts[-3:]],
        findings=findings, mismatches=mism, distribution=dist,
        correspondence=dict(engine="parse", cases=len(texts), disagreements=len(mism),
                            evaluated_inside_coq=ce["cases"], inside_coq_agree=ce["agree"],
                            strength="bit-exact matrix entries and Ok/Err outcome (NumF instance of model/Parse.v)"),
        searched=len(texts), notes=[])


def replay(prop, conf, case):
    import re
    m = re.search(r"hex=(\S+)", case)
    text = "" if m.group(1) == "-" else bytes.fromhex(m.group(1)).decode("utf-8")
    return run(prop, conf, dict(grammar_quick=0, arbitrary_quick=0), "quick", 0, False, only=text)
