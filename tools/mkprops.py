#!/usr/bin/env python3
"""One-off helper: generate a props/Cnn.v skeleton whose theorem statements are the
printed statements of already-proved lemmas.  The generated file is then COMMITTED and is
what pins the statements: a later change of a lemma's statement makes `exact` fail.
usage: mkprops.py Cnn 'Require line(s)' name=lemma name=lemma ... """
import subprocess, sys, re, os
prop = sys.argv[1]
req = sys.argv[2]
pairs = [a.split("=", 1) for a in sys.argv[3:]]
src = req + "\nSet Printing Width 100000.\nSet Printing Depth 100000.\n"
for pr in pairs:
    if pr[1].endswith("!"):
        pr[1] = pr[1][:-1]
        src += 'Set Printing Implicit.\nUnset Printing Records.\nCheck %s.\nUnset Printing Implicit.\nSet Printing Records.\n' % pr[1]
    else:
        src += 'Check %s.\n' % pr[1]
tmp = "/tmp/mkprops_%s.v" % prop
open(tmp, "w").write(src)
out = subprocess.run(["coqc", "-Q", "/verif/coq", "PV", tmp], capture_output=True, text=True)
if out.returncode != 0:
    sys.stderr.write(out.stdout + out.stderr); sys.exit(1)
blocks = re.split(r"\n(?=\S)", out.stdout.strip())
stmts = {}
for b in blocks:
    m = re.match(r"^([\w'.]+)\s*\n?\s*:\s*(.*)$", b, re.S)
    if m:
        stmts[m.group(1)] = " ".join(m.group(2).split())
print(req)
print()
for n, l in pairs:
    st = stmts.get(l) or stmts.get(l.split(".")[-1])
    import textwrap
    body = "\n".join(textwrap.wrap(st, 96, initial_indent="  ", subsequent_indent="    ", break_long_words=False, break_on_hyphens=False))
    print("Theorem %s :\n%s.\nProof. exact %s. Qed.\nPrint Assumptions %s.\n" % (n, body, l, n))
