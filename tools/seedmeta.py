#!/usr/bin/env python3
"""Adds the human-written fields to seeded/*/meta.json and prints the DESIGN.md table."""
import json, os, glob
ROOT = os.path.dirname(os.path.dirname(os.path.abspath(__file__)))
NEEDS = {
 "C01-m1": ("shell count computed from cell.area()/min(a,b) (the largest height)", "a sheared oblique cell (angle pi/6) with side ratio ~0.67: the only overlapping pair is two cells away along the short side"),
 "C01-m2": ("copies at exactly equal positions are skipped in the in-cell loop", "a site coordinate clamped to its bound so that a mirror copy wraps onto the same point"),
 "C02-m1": ("second chord distance derived from the half-chord length (loses its sign)", "a trimer with distance^2 + radius^2 < 1 (small disc deep inside the central one)"),
 "C02-m2": ("Cell2::area() rewritten as a * sin(angle) * min(a, b)", "a cell with side ratio above 1, which only arises in states loaded from JSON"),
 "C03-m1": ("in-cell pairs between different occupied sites taken with zip instead of the product", "two or more occupied sites in a group of multiplicity >= 2"),
 "C03-m2": ("early exit of LJShape2::energy with the range measured inconsistently", "trimers with small particles facing each other at centre distances in a 0.24-wide window (~1.5% of random states)"),
 "C04-m1": ("Clone for Cell2 uses ..Default::default(): every cloned cell becomes Monoclinic", "an orthorhombic group, a clone (the CLI clones per replica) and an accepted move of the cell angle"),
 "C04-m2": ("Transform2::periodic wraps by right-multiplying a translation", "a copy that wraps across a cell face while the site angle is not a multiple of pi/2"),
 "C05-m1": ("kt = kt_start * kt_ratio.powi(loop) instead of repeated multiplication", "kt_start = 0, a heating factor (kt_ratio < 0) and more than ~1024 loops: factor^n overflows, 0*inf = NaN"),
 "C05-m2": ("temperature floored at f64::EPSILON in energy_surface", "kt = 0 and score decreases of a few ulps (near-flat landscapes)"),
 "C06-m1": ("set_value records `old` only when the proposal is not clamped", "an accepted move of a parameter, then a rejected proposal on the same parameter that overshoots a bound"),
 "C06-m2": ("the undo of a rejected move is deferred and not flushed on the convergence early return", "a convergence threshold, six converged loops in a row, and a rejected last step"),
 "C07-m1": ("energy_surface without f64::min: the NaN of 0/0 reaches the comparison", "kt exactly 0 and a proposal with exactly the same score"),
 "C07-m2": ("score_current becomes max(score, score_current) on acceptance", "kt > 0 after a downhill move has been accepted"),
 "C08-m1": ("ratio lower bound 0.1 * current ratio instead of 0.1", "chains of two or more optimisation stages (bounds re-derived from the current values)"),
 "C08-m2": ("set_sampled reflects an overshooting proposal with a second set_value call (overwrites `old`)", "a parameter within one step of a limit and a rejected proposal"),
 "C09-m1": ("replications rounded up to a multiple of rayon::current_num_threads()", "a replication count that is not a multiple of the thread count, and one of the extra replicas winning"),
 "C09-m2": ("seed Some(0) treated as no seed (entropy)", "seed 0, i.e. replica 0 of every CLI run, when it is the best replica"),
 "C10-m1": ("best replica selected on a score cached before the final stage", ">= 2 replications and a seed set where the final stage reorders the leading replicas (e.g. --steps 2000 p2 polygon)"),
 "C10-m2": ("WyckoffSite::new dedupes operations by the image of the probe site (1/4,1/4)", "group p2mg only (the probe lies on its mirror line): 2 of 4 copies"),
 "C11-m1": ("result file opened without truncation", "the same --outfile reused with a shorter JSON than before"),
 "C11-m2": ("SVG neighbour translations computed as (x a, y b sin) - no shear term", "optimised p1/p2 states whose cell angle has left pi/2"),
 "C12-m1": ("early 'no' when the central atoms are further apart than 2 * enclosing radius (measured from the origin)", "trimers placed tip to tip with one copy near the origin"),
 "C12-m2": ("early 'yes' when inscribed circles (radius to edge midpoints) overlap", "non-regular convex radial polygons such as the rhombus [1, .5, 1, .5]"),
 "C13-m1": ("cutoff shift not scaled by epsilon", "a cutoff and epsilon != 1 (every constructor uses epsilon 1)"),
 "C13-m2": ("LJ2 * Transform2 rebuilds the particle through LJ2::new (cutoff None, epsilon 1)", "a non-default cutoff or epsilon plus a transform (trimers through the CLI)"),
 "C14-m1": ("cos computed as sqrt(1 - sin^2)", "obtuse cell angles, which only come from deserialised cells"),
 "C14-m2": ("periodic images rebuilt as Transform2::new(rotation(), pos)", "placements with a mirror/glide linear part (determinant -1)"),
 "C15-m1": ("wrap replaced by a minimum-image formula using round()", "a site coordinate exactly on the lower cell face (-1/2)"),
 "C15-m2": ("copies whose wrapped location equals an earlier one are dropped", "a site exactly on a two-fold axis or mirror line"),
 "C16-m1": ("denominator accumulator declared outside the per-coordinate loop in from_operations", "operations with a fraction in both coordinates (the two p2gg glides)"),
 "C16-m2": ("p1g1 paired with Monoclinic", "optimisation moving the newly exposed cell angle"),
 "C17-m1": ("the 'y' arm no longer resets the sign", "a negated y that is not the last term of its component"),
 "C17-m2": ("digits matched with is_numeric() and to_digit(10).unwrap()", "non-ASCII numeric characters"),
 "C18-m1": ("cooling exponent uses steps/inner_steps as a float", "kt_finish with steps not a multiple of inner_steps"),
 "C18-m2": ("cooling skipped by `continue` on stalled loops when convergence is set", "convergence = Some(_) and stalled loops, fewer than six in a row"),
 "C19-m1": ("the cap on the step ratio only applied when the ratio is below 1 or shrinking", "a fully rejected loop followed by a loop with acceptances"),
 "C19-m2": ("absolute step floored at 1e-4", "max_step_size below 1e-4"),
 "C20-m1": ("convergence test rewritten with the comparison reversed (equality counts as converged)", "a boundary threshold, e.g. convergence = 0 at zero temperature"),
 "C20-m2": ("loop count rounded up (ceiling division)", "steps not a multiple of inner_steps"),
 "C01-m3": ("the periodic-image loop of check_intersection compares a site's copies only with images of the SAME site", "two or more occupied sites (library / JSON states) overlapping through a cell face"),
 "C01-m4": ("enclosing_radius taken from the atom whose CENTRE is furthest from the origin", "a trimer whose large central particle reaches furthest (e.g. --radius 0.4), a group with a rotation, contact through a cell face"),
 "C03-m3": ("LJ2::energy returns 0 when r^2 == 0 (\"a particle does not interact with itself\")", "two molecule images exactly coincident: a site clamped onto a special position"),
 "C03-m4": ("Transform2::periodic wraps by a single +- period step", "site coordinates more than one cell away from the canonical cell (JSON states), or operations with translation > 1"),
 "C06-m3": ("a rejected move is undone with set_value(previous), which clamps", "a parameter that starts OUTSIDE its declared interval (state loaded from a file) and a rejected move on it"),
 "C06-m4": ("StandardBasis::set_value returns early, without refreshing `old`, when the clamped value equals the current one", "accepted move off a limit, accepted move back onto it, then a clamped no-op proposal that is rejected"),
 "C08-m3": ("a proposal without a score is flattened to -inf and sent through the acceptance arithmetic", "a temperature that is +inf, NaN or negative: (-inf - old)/kt is NaN or +inf and f64::min(exp(..), 1) = 1"),
 "C08-m4": ("the cell length's upper bound becomes max(a(), b())", "a valid state with side ratio above one (loaded from a file) optimised at kt > 0"),
 "C09-m3": ("the consecutive-converged-loops counter moved to an atomic field of MCOptimiser, not reset at call start", "one built optimiser reused (or shared by replicas) with convergence = Some(_) and a previous call that ended on the step budget mid-streak"),
 "C09-m4": ("state == and partial_cmp treat scores within f64::EPSILON as equal", "replicas whose scores differ by a few ulps: the order is no longer transitive, max depends on the reduction tree"),
 "C10-m3": ("PotentialState::partial_cmp compares score.to_bits() as i64", "all contending Lennard-Jones replicas with NEGATIVE scores (net repulsive): the order among them is inverted"),
 "C10-m4": ("stages 2 and 3 of a replica seeded with start_configs + index and 2*start_configs + index", "comparing runs with different --replications, or the binary against the library replay"),
 "C11-m3": ("SharedValue serialised through serialize_f32 whenever the value survives an f32 cast", "a parameter value that is exactly representable in single precision (set through the library / read from a file)"),
 "C11-m4": ("Transform2::as_svg reuses the (0,0) entry for the (1,1) entry of the matrix", "groups with a mirror or glide (d = -a): p1m1, p1g1, p2mm, p2mg, p2gg"),
 "C12-m3": ("Line2::intersects computes its numerators from the implicit line equation (products of coordinates)", "shapes ~1e5-1e6 away from the origin (library callers): rounding error grows with the square of the distance"),
 "C12-m4": ("MolecularShape2::intersects gains a separating-axis early exit along the axis between the two first atoms", "exactly coincident first atoms: normalize(0) = NaN, the NaN-ignoring folds make the pre-check say 'separated'"),
 "C15-m3": ("the wrap replaced by v - period * round((v - centre)/period)", "an image coordinate of exactly -1/2 (round() rounds halves away from zero): the basis produces it when it clamps"),
 "C15-m4": ("positions() folds with (v + 0.5) as i64 (truncation toward zero) instead of Transform2::periodic", "site coordinates shifted by a NEGATIVE whole lattice vector (library / JSON states)"),
 "C20-m3": ("with a convergence threshold, a slow loop skips the step-size adaptation (`continue`)", "a threshold, a slow loop with every proposal rejected, and at least one more loop"),
 "C20-m4": ("the loop count computed once in build() in floating point: steps as f64 / inner_steps as f64", "inner_steps = 0 with steps > 0: the quotient is +inf, cast to u64::MAX loops - the optimiser never returns"),
 "C02-m5": ("overlap_area uses atan(half_chord / d) instead of the clamped acos(d / r)", "a chord beyond a circle's centre or one circle inside the other: trimers with distance^2 + radius^2 < 1"),
 "C02-m6": ("shape.area() * total_shapes cached in a #[serde(skip)] OnceLock", "a state that is scored, then has its public shape field replaced, then scored again"),
 "C04-m5": ("Cell2.family marked #[serde(skip)] with Default = Monoclinic", "an orthorhombic state written to JSON, read back and optimised further (the angle becomes a degree of freedom)"),
 "C04-m6": ("positions() dedups images that coincide in POSITION (orientation ignored)", "a site coordinate exactly on a bound or 0: mirror / two-fold images coincide and one is dropped"),
 "C05-m5": ("reset_value routed through the clamping helper", "a parameter that starts outside its limits (state from a file) and a rejected move on it: the state jumps while the optimiser keeps the old score"),
 "C05-m6": ("temperature in closed form kt_start * kt_ratio.powf(loop)", "kt_start = 0 with a heating factor and enough loops for the power to overflow: 0 * inf = NaN, every move accepted"),
 "C07-m5": ("acceptance test moved to the log domain: ln(threshold) < (new - old)/kt", "kT exactly 0 and an exactly equal score: 0/0 = NaN compares false (the original maps it to probability 1)"),
 "C07-m6": ("score_current only updated when the score improved", "kT > 0 and a history with an accepted worse move"),
 "C13-m5": ("LJShape2::energy returns 0 beyond the largest cutoff of the molecule, folded over filter_map(cutoff)", "a molecule mixing cut and uncut particles (library / file states)"),
 "C13-m6": ("thread-local memo of the cutoff shift keyed on (sigma, cutoff) only", "two species with the same sigma and cutoff but different epsilon evaluated consecutively on one thread"),
 "C14-m5": ("periodic images rebuilt as Transform2::new(rotation(), image_pos)", "placements with a reflection: images come out as pure rotations"),
 "C14-m6": ("to_cartesian computes cos as sqrt(1 - sin^2)", "obtuse cell angles (cells from a file)"),
 "C16-m5": ("from_operations rewritten as one pass: the last component's constant is never stored", "table entries with a y translation: p1g1 becomes p1m1, p2gg becomes p2mg"),
 "C16-m6": ("order-4 groups completed from two generators by multiplying string-parsed matrices (zero [2,2] entry)", "p2mg and p2gg: the product loses the left factor's translation"),
 "C17-m5": ("digit arm matches is_numeric(), value taken with to_digit(10).expect()", "non-ASCII numerals: a panic instead of Err"),
 "C17-m6": ("numerator/denominator scratch variables hoisted out of the per-component loop, denominator not reset", "a fraction in the first component followed by an integer constant in the second"),
 "C18-m5": ("cooling only applied when the loop accepted at least one move", "a fully rejected loop followed by loops still warm enough to measure"),
 "C18-m6": ("clamp moved from the factor to the temperature: if kt < 0 { kt = 0 }", "kt_ratio above one: the temperature alternates between +0.0 and -0.0, and -0.0 accepts every downhill move"),
 "C19-m5": ("min(step_ratio, 1) replaced by 'skip growth when already at the maximum'", "a fully rejected loop followed by a loop with acceptances: the ratio exceeds 1 and stays there"),
 "C19-m6": ("step tracked directly with an absolute floor max(min(step, max_step_size), 1e-4)", "max_step_size below 1e-4 (including 0)"),
}
rows = []
for d in sorted(glob.glob(os.path.join(ROOT, "seeded", "*"))):
    name = os.path.basename(d)
    mp = os.path.join(d, "meta.json")
    if not os.path.exists(mp):
        continue
    m = json.load(open(mp))
    if name in NEEDS:
        m["change"], m["needs_to_manifest"] = NEEDS[name]
    m["breaks_property"] = name.split("-")[0]
    json.dump(m, open(mp, "w"), indent=1)
    first = {}
    for c, r in m.get("checks_with_patch", {}).items():
        ln = [l for l in r.get("lines", []) if l.startswith("VIOLATION")]
        first[c] = "no-failing-input-found" if (ln and "no-failing-input-found" in ln[0]) else ("concrete input" if ln else "-")
    det = ", ".join("%s (%s)" % (c, first.get(c, "?")) for c in m.get("detected_by", [])) or "NOT DETECTED"
    rows.append("| %s | %s | %s | %s |" % (name, m.get("change", "?"), m.get("needs_to_manifest", "?"), det))
print("| change | what it does | needs | caught by (replay kind) |\n|---|---|---|---|")
print("\n".join(rows))
