#!/usr/bin/env python3
"""tools/repin.py <coqdir> Cnn [--all | name ...]
Re-print the statements of pinned theorems of <coqdir>/props/Cnn.v from the lemmas they are proved by (after a
deliberate generalisation of those lemmas).  Without names: compile the file, re-pin the theorem at which the
compilation fails, repeat.  Every re-pinned statement is listed so that the change can be reviewed."""
import os, re, subprocess, sys, textwrap

coqdir, prop = sys.argv[1], sys.argv[2]
names = [a for a in sys.argv[3:] if not a.startswith("--")]
path = os.path.join(coqdir, "props", prop + ".v")


def printed(reqs, lemma, implicit):
    src = reqs + "\nSet Printing Width 100000.\nSet Printing Depth 100000.\n"
    if implicit:
        src += "Set Printing Implicit.\nUnset Printing Records.\n"
    src += "Check %s.\n" % lemma
    tmp = "/tmp/repin_%s.v" % prop
    open(tmp, "w").write(src)
    out = subprocess.run(["coqc", "-Q", coqdir, "PV", tmp], capture_output=True, text=True)
    if out.returncode != 0:
        raise RuntimeError(out.stdout + out.stderr)
    m = re.search(r"^[\w'.]+\s*\n?\s*:\s*(.*)$", out.stdout.strip(), re.S)
    return " ".join(m.group(1).split())


def repin(name, implicit=False):
    s = open(path).read()
    m = re.search(r"Theorem %s :\n(.*?)\.\nProof\. exact ([\w'.]+)\. Qed\." % re.escape(name), s, re.S)
    if not m:
        raise RuntimeError("no pinned theorem %s in %s" % (name, path))
    reqs = "\n".join(l for l in s[:m.start()].split("\n") if re.match(r"^(From|Require|Import|Local Open Scope|Open Scope)", l))
    st = printed(reqs, m.group(2), implicit)
    body = "\n".join(textwrap.wrap(st, 96, initial_indent="  ", subsequent_indent="    ", break_long_words=False, break_on_hyphens=False))
    s = s[:m.start(1)] + body + s[m.end(1):]
    open(path, "w").write(s)
    print("re-pinned %s (from %s)%s" % (name, m.group(2), " [implicit]" if implicit else ""))


def compile_file():
    out = subprocess.run(["coqc", "-Q", coqdir, "PV", path], capture_output=True, text=True, cwd=coqdir)
    if out.returncode == 0:
        return None
    m = re.search(r'line (\d+), characters', out.stdout + out.stderr)
    return int(m.group(1)) if m else -1, (out.stdout + out.stderr)[-600:]


if names:
    for n in names:
        repin(n)
    sys.exit(0)
tried = {}
while True:
    r = compile_file()
    if r is None:
        print("compiles")
        break
    line, msg = r
    s = open(path).read().split("\n")
    # the theorem enclosing the failing line
    name = None
    for i in range(min(line, len(s)) - 1, -1, -1):
        m = re.match(r"Theorem (\w+) :", s[i])
        if m:
            name = m.group(1)
            break
    if name is None or tried.get(name, 0) >= 2:
        print("cannot repair at line %d:\n%s" % (line, msg))
        sys.exit(1)
    repin(name, implicit=tried.get(name, 0) == 1)
    tried[name] = tried.get(name, 0) + 1
