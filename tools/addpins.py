#!/usr/bin/env python3
"""tools/addpins.py Cnn 'extra Require line (or empty)' name=lemma ...
Appends pinned statements (as printed by Coq for the already proved lemmas) to coq/props/Cnn.v."""
import subprocess, sys, re
prop, extra, pairs = sys.argv[1], sys.argv[2], sys.argv[3:]
path = "/verif/coq/props/%s.v" % prop
src = open(path).read()
req = "\n".join(l for l in src.split("\n") if re.match(r"^(From|Require|Import|Local Open Scope|Open Scope)", l))
if extra and extra not in req:
    # place the extra Require after the last From/Require line of the file
    lines = src.split("\n")
    idx = max(i for i, l in enumerate(lines) if re.match(r"^(From|Require)", l))
    lines.insert(idx + 1, extra)
    src = "\n".join(lines)
    req += "\n" + extra
out = subprocess.run([sys.executable, "/verif/tools/mkprops.py", prop, req] + pairs, capture_output=True, text=True)
if out.returncode != 0:
    sys.stderr.write(out.stdout + out.stderr); sys.exit(1)
body = out.stdout
# drop the echoed require block
i = body.index("Theorem ")
if not src.endswith("\n"):
    src += "\n"
open(path, "w").write(src + "\n" + body[i:])
print("appended %d pins to %s" % (len(pairs), path))
