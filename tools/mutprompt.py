#!/usr/bin/env python3
import json, sys
pid = sys.argv[1]
for l in open('/verif/properties.jsonl'):
    p = json.loads(l)
    if p['id'] == pid:
        break
print(f"""You are helping to test a verification framework by writing realistic *seeded bugs* for a Rust project.

The project is the Rust crate `packing` (malramsay64/pypacking: a research CLI/library that finds dense 2D crystal packings of shapes via Monte Carlo optimisation over wallpaper-group symmetries). You have your OWN scratch git worktree of it at /tmp/mut/wt-{pid} . Work ONLY inside /tmp/mut/wt-{pid} and /tmp/mut/out-{pid} . Never read, write or run anything under /repo or /verif (they are off limits), and do not create other worktrees. The sandbox has no network; build with `cargo build --offline` / `cargo test --offline --lib --tests` inside the worktree (the doctest in src/ops_macros.rs fails on the pristine tree and is not part of the baseline; ignore it).

Here is a semantic property the project is supposed to satisfy:

  id: {p['id']}
  title: {p['title']}
  statement: {p['statement']}
  quantified over: {p['quantifier']['text']}
  code it is anchored in: {', '.join(p['anchors']['files'])}

YOUR TASK: produce TWO different, independent source changes to the crate (each a separate small patch against the pristine worktree, touching src/ only), each of which
  (a) BREAKS the property above (a real behavioural violation of the statement, not just a cosmetic change),
  (b) still compiles, and still passes the ENTIRE existing test suite (`cargo test --offline --lib --tests` must show the same 90 tests passing), and
  (c) is *subtle*: it should need something specific to manifest - an unusual input or configuration, a multi-step sequence of operations, a particular history/seed, a boundary value, or two cooperating sites that each look fine alone - rather than something ordinary use would expose at once. Think of the kind of bug a plausible refactoring, an "optimisation", or an off-by-one could introduce. The two changes should break the property through different mechanisms.

For EACH change also write a demonstration: a small Rust integration test file (to be placed in tests/ of the crate, using only the crate's public API and its existing dependencies) or a small shell script driving the built binary, that FAILS with the change applied and PASSES on the pristine tree. Verify both directions yourself (run it with and without the patch) and verify the existing test suite still passes with the patch.

Deliverables, written under /tmp/mut/out-{pid}/ :
  m1/patch.diff   (output of `git diff` for change 1 only, relative to the pristine worktree, src/ files only)
  m1/demo_test.rs (or demo.sh) the demonstration
  m1/notes.md     what the change does, why it breaks the property, what specific trigger it needs, the exact commands you ran and their observed results (with/without patch; test-suite result)
  m2/...          the same for change 2
When done, restore the worktree to pristine (`git checkout -- . && git clean -fdq tests src`) and run `cargo clean` in it is NOT needed. Reply with a brief summary (under 200 words) of the two changes and whether each was verified.""")
