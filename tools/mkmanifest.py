#!/usr/bin/env python3
"""Writes /verif/MANIFEST.json from the table below (kept in one place so the manifest is always valid)."""
import json, os, sys
ROOT = os.path.dirname(os.path.dirname(os.path.abspath(__file__)))
sys.path.insert(0, os.path.join(ROOT, "bin"))
import claims

BASELINE = ("cd /repo && cargo test --workspace --no-fail-fast --offline --lib --tests")
m = {
    "version": 1,
    "setup_cmd": "bin/setup",
    "hooks": {
        "guard": "packing_verif",
        "enable": "unused: no source hooks were needed (the harness drives the crate through its public API; "
                  "the optimiser's random stream is replayed from the seed)",
        "baseline_off_cmd": BASELINE,
        "source_commits": [],
        "add_only": True,
    },
    "engines": claims.ENGINES,
    "checks": [],
    "not_applicable": [],
    "notes": claims.NOTES,
}
for pid in sorted(claims.CLAIMS):
    c = claims.CLAIMS[pid]
    m["checks"].append({
        "property_id": pid,
        "quick_cmd": "bin/check %s --tier quick" % pid,
        "thorough_cmd": "bin/check %s --tier thorough" % pid,
        "evidence_file": "evidence/%s.json" % pid,
        "replay_cmd_template": "bin/check %s --replay {path}" % pid,
        "engine": c["engine"],
        "level_claimed": {"category": "proof", "text": c["text"], "design_ref": c["design_ref"]},
        "level_note": c["note"],
        "technique": c["technique"],
    })
for pid in sorted(claims.NOT_APPLICABLE):
    m["not_applicable"].append({"property_id": pid, "reason": claims.NOT_APPLICABLE[pid]})
json.dump(m, open(os.path.join(ROOT, "MANIFEST.json"), "w"), indent=1)
print("MANIFEST.json: %d checks, %d not_applicable" % (len(m["checks"]), len(m["not_applicable"])))
