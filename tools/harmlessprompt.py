#!/usr/bin/env python3
"""tools/harmlessprompt.py Cnn: the brief given to a fresh sub-agent that writes property-PRESERVING changes (refactorings,
optimisations, additions a maintainer might make near the property's code), used to look for false alarms of the checks."""
import json, sys
pid = sys.argv[1]
for l in open('/verif/properties.jsonl'):
    p = json.loads(l)
    if p['id'] == pid:
        break
W = "/tmp/mut/wth-%s" % pid
O = "/tmp/mut/outh-%s" % pid
print(f"""You are helping to test a verification framework for a Rust project by writing realistic *harmless* source changes: changes a maintainer could plausibly make, after which a given semantic property STILL HOLDS. (The framework must not raise an alarm on them.)

The project is the Rust crate `packing` (malramsay64/pypacking: a research CLI/library that finds dense 2D crystal packings of shapes via Monte Carlo optimisation over wallpaper-group symmetries). You have your OWN scratch git worktree of it at {W} . Work ONLY inside {W} and {O} . Never read, write or run anything under /repo or /verif (they are off limits), do not create other worktrees, and do not use `git stash`. The sandbox has no network; build with `cargo build --offline` / `cargo test --offline --lib --tests` inside the worktree (the doctest in src/ops_macros.rs fails on the pristine tree and is not part of the baseline; ignore it).

Here is the semantic property:

  id: {p['id']}
  title: {p['title']}
  statement: {p['statement']}
  quantified over: {p['quantifier']['text']}
  code it is anchored in: {', '.join(p['anchors']['files'])}

YOUR TASK: produce THREE different, independent source changes to the crate (each a separate small patch against the pristine worktree, touching src/ only), each of which
  (a) changes code IN OR NEAR the code the property is anchored in (not a comment-only or whitespace-only change),
  (b) compiles and passes the ENTIRE existing test suite (`cargo test --offline --lib --tests` must show the same 90 tests passing),
  (c) PRESERVES the property: after the change the statement above is still true for everything it quantifies over. Be careful and honest about this: if in doubt, choose a different change.
Aim for variety over the three: (1) a pure refactoring with identical observable behaviour (extract a helper, rewrite a loop as an iterator chain or the reverse, rename, reorder independent statements, change an integer type that cannot overflow, add a debug! line or a debug_assert!, add a new public accessor or a new unit test); (2) a behaviour change that is visible but which the property permits (e.g. a different default value of a setting that the property does not fix, an extra field or different formatting in output the property does not constrain, a cheaper-but-equivalent computation whose floating-point results may differ in the last bits where the property does not demand bit-exactness, a different but still valid order of evaluation, an additional early exit that cannot change any result); (3) a change to a neighbouring function or feature that the property does not talk about at all.

For EACH change write notes explaining exactly why the property still holds after it, and what observable behaviour (if any) changed.

Deliverables, written under {O}/ :
  h1/patch.diff   (output of `git diff` for change 1 only, relative to the pristine worktree, src/ files only)
  h1/notes.md     what the change does, why the property still holds, what behaviour changed if any, the commands you ran and the observed test-suite result
  h2/..., h3/...  the same for changes 2 and 3
When done, restore the worktree to pristine (`git checkout -- . && git clean -fdq tests src`). Reply with a brief summary (under 200 words) of the three changes.""")
