#!/usr/bin/env python3
"""tools/seed.py <PROP> <mut-dir> <worktree> [--checks C05,C06] [--tier quick]
Confirm a seeded change (patch.diff + demo) in a scratch worktree, then run the registered checks
against /repo with the patch applied (and undo it), and file it under /verif/seeded/.
  confirm: patch applies; crate builds; the 90 baseline tests pass with it; the demonstration
           fails with it and passes without it.
"""
import json, os, re, shutil, subprocess, sys, time

ROOT = os.path.dirname(os.path.dirname(os.path.abspath(__file__)))


def sh(cmd, cwd=None, timeout=3000):
    p = subprocess.run(cmd, cwd=cwd, shell=True, stdout=subprocess.PIPE, stderr=subprocess.STDOUT, timeout=timeout)
    return p.returncode, p.stdout.decode("utf-8", "replace")


def main():
    prop, mdir, wt = sys.argv[1], sys.argv[2].rstrip("/"), sys.argv[3]
    checks = [prop]
    tier = "quick"
    skip_confirm = False
    a = sys.argv[4:]
    while a:
        if a[0] == "--checks":
            checks = a[1].split(","); a = a[2:]
        elif a[0] == "--tier":
            tier = a[1]; a = a[2:]
        elif a[0] == "--skip-confirm":
            skip_confirm = True; a = a[1:]
        else:
            a = a[1:]
    name = "%s-%s" % (prop, os.path.basename(mdir))
    patch = os.path.join(mdir, "patch.diff")
    demo = None
    for f in ("demo_test.rs", "demo.sh"):
        if os.path.exists(os.path.join(mdir, f)):
            demo = f
    meta = {"property": prop, "name": name, "ran": []}
    env = "CARGO_NET_OFFLINE=true "
    if not skip_confirm:
        sh("git checkout -- . && git clean -fdq tests src", cwd=wt)
        rc, out = sh("git apply --check %s" % patch, cwd=wt)
        if rc != 0:
            print("patch does not apply:", out); return 2
        # demo without the patch
        if demo == "demo_test.rs":
            shutil.copy(os.path.join(mdir, demo), os.path.join(wt, "tests", "zz_demo_test.rs"))
            rc0, out0 = sh(env + "cargo test --offline --test zz_demo_test 2>&1 | tail -15", cwd=wt)
            pass_without = "test result: ok" in out0
        else:
            rc0, out0 = sh("bash %s" % os.path.join(mdir, demo), cwd=wt)
            pass_without = rc0 == 0
        sh("git apply %s" % patch, cwd=wt)
        rcb, outb = sh(env + "cargo test --offline --lib --tests 2>&1 | grep -E 'test result|FAILED|failed' | head -20", cwd=wt)
        # baseline: lib tests 88 + 2 integration (the demo test is a separate binary)
        if demo == "demo_test.rs":
            rc1, out1 = sh(env + "cargo test --offline --test zz_demo_test 2>&1 | tail -15", cwd=wt)
            fail_with = "test result: FAILED" in out1 or "panicked" in out1
        else:
            rc1, out1 = sh("bash %s" % os.path.join(mdir, demo), cwd=wt)
            fail_with = rc1 != 0
        passed = sum(int(x) for x in re.findall(r"test result: ok\. (\d+) passed", outb))
        failed_suites = [l for l in outb.split("\n") if "FAILED" in l and "zz_demo" not in l]
        sh("git checkout -- . && git clean -fdq tests src", cwd=wt)
        meta["confirm"] = {"demo_passes_without_patch": pass_without, "demo_fails_with_patch": fail_with,
                           "baseline_with_patch": outb.strip().split("\n")[:8], "demo_output_with_patch": out1[-600:]}
        print("confirm: demo passes without=%s fails with=%s; baseline with patch:\n%s" % (pass_without, fail_with, outb))
        if not (pass_without and fail_with):
            print("NOT CONFIRMED"); return 3
    # run the checks against /repo with the patch applied
    rc, out = sh("git -C /repo status --porcelain")
    if out.strip():
        print("/repo is not clean:", out); return 2
    rc, out = sh("git -C /repo apply %s" % patch)
    if rc != 0:
        print("cannot apply to /repo:", out); return 2
    results = {}
    # the evidence files describe runs on the UNCHANGED tree: keep them out of the seeded runs
    saved = {}
    for c in checks:
        p = os.path.join(ROOT, "evidence", c + ".json")
        if os.path.exists(p):
            saved[p] = open(p, "rb").read()
    try:
        for c in checks:
            t0 = time.time()
            rc, out = sh("bin/check %s --tier %s" % (c, tier), cwd=ROOT)
            results[c] = {"exit": rc, "wall_s": round(time.time() - t0, 1),
                          "lines": [l for l in out.split("\n") if l.startswith(("VIOLATION", "KNOWN", "OK", "  "))][:6]}
            print(c, "exit", rc, results[c]["lines"])
    finally:
        sh("git -C /repo checkout -- .")
        for p, data in saved.items():
            open(p, "wb").write(data)
        # bring the regenerated model parts (coq/gen/*.v) back to the unchanged tree
        sh("cd %s/bin && python3 -c 'import vlib, gen; vlib.build_harness(); gen.regenerate()'" % ROOT)
    meta["checks_with_patch"] = results
    meta["detected_by"] = [c for c, r in results.items() if r["exit"] == 1]
    d = os.path.join(ROOT, "seeded", name)
    os.makedirs(d, exist_ok=True)
    shutil.copy(patch, os.path.join(d, "patch.diff"))
    if demo:
        shutil.copy(os.path.join(mdir, demo), os.path.join(d, demo))
    if os.path.exists(os.path.join(mdir, "notes.md")):
        shutil.copy(os.path.join(mdir, "notes.md"), os.path.join(d, "notes.md"))
    old = {}
    mp = os.path.join(d, "meta.json")
    if os.path.exists(mp):
        old = json.load(open(mp))
    # accumulate over runs: which checks ever detected it, and every check result with the patch applied
    merged_checks = dict(old.get("checks_with_patch", {}))
    merged_checks.update(meta["checks_with_patch"])
    detected = sorted(set(old.get("detected_by", [])) | set(meta["detected_by"]))
    old.update(meta)
    old["checks_with_patch"] = merged_checks
    old["detected_by"] = detected
    old["ran"] = ["git apply patch.diff in a scratch worktree: cargo test --offline --lib --tests (baseline with the patch), "
                  "the demonstration with and without the patch", "git -C /repo apply patch.diff; bin/check <property> --tier quick; git -C /repo checkout -- ."]
    json.dump(old, open(mp, "w"), indent=1)
    print("filed", d, "detected_by", meta["detected_by"])
    return 0


if __name__ == "__main__":
    sys.exit(main())
