#!/usr/bin/env python3
"""tools/harmless.py <PROP> <dir-with-patch.diff> [--checks C05,C06] [--tier quick]
Run the registered checks against /repo with a property-PRESERVING change applied (and undo it), and file the outcome
under /verif/harmless/.  Outcome per check:
  quiet        exit 0
  obligation   exit 1 and every VIOLATION line ends in no-failing-input-found: a proof obligation, the translation or the
               correspondence no longer checks and no failing input was found (what the brief prescribes for a rewrite
               the model cannot follow)
  ALARM        exit 1 with a VIOLATION line that names a concrete failing input: to be looked at - either the change is
               not harmless after all, or the check is wrong (a false alarm to repair)
"""
import json, os, shutil, subprocess, sys, time

ROOT = os.path.dirname(os.path.dirname(os.path.abspath(__file__)))


def sh(cmd, cwd=None, timeout=3000):
    p = subprocess.run(cmd, cwd=cwd, shell=True, stdout=subprocess.PIPE, stderr=subprocess.STDOUT, timeout=timeout)
    return p.returncode, p.stdout.decode("utf-8", "replace")


def main():
    prop, hdir = sys.argv[1], sys.argv[2].rstrip("/")
    checks, tier = [prop], "quick"
    a = sys.argv[3:]
    while a:
        if a[0] == "--checks":
            checks = a[1].split(","); a = a[2:]
        elif a[0] == "--tier":
            tier = a[1]; a = a[2:]
        else:
            a = a[1:]
    name = "%s-%s" % (prop, os.path.basename(hdir))
    patch = os.path.join(hdir, "patch.diff")
    rc, out = sh("git -C /repo status --porcelain")
    if out.strip():
        print("/repo is not clean:", out); return 2
    rc, out = sh("git -C /repo apply %s" % patch)
    if rc != 0:
        print("cannot apply to /repo:", out); return 2
    saved = {}
    for c in checks:
        p = os.path.join(ROOT, "evidence", c + ".json")
        if os.path.exists(p):
            saved[p] = open(p, "rb").read()
    results = {}
    try:
        for c in checks:
            t0 = time.time()
            rc, out = sh("bin/check %s --tier %s" % (c, tier), cwd=ROOT)
            lines = [l for l in out.split("\n") if l.startswith(("VIOLATION", "KNOWN", "OK", "  "))]
            viol = [l for l in lines if l.startswith("VIOLATION")]
            if rc == 0 and not viol:
                outcome = "quiet"
            elif viol and all(l.rstrip().endswith("no-failing-input-found") for l in viol):
                outcome = "obligation"
            else:
                outcome = "ALARM"
            results[c] = {"exit": rc, "outcome": outcome, "wall_s": round(time.time() - t0, 1), "lines": lines[:8]}
            print(c, outcome, lines[:4])
    finally:
        sh("git -C /repo checkout -- .")
        for p, data in saved.items():
            open(p, "wb").write(data)
        sh("cd %s/bin && python3 -c 'import vlib, gen; vlib.build_harness(); gen.regenerate()'" % ROOT)
    d = os.path.join(ROOT, "harmless", name)
    os.makedirs(d, exist_ok=True)
    shutil.copy(patch, os.path.join(d, "patch.diff"))
    if os.path.exists(os.path.join(hdir, "notes.md")):
        shutil.copy(os.path.join(hdir, "notes.md"), os.path.join(d, "notes.md"))
    mp = os.path.join(d, "meta.json")
    old = json.load(open(mp)) if os.path.exists(mp) else {"property": prop, "name": name, "history": []}
    if "checks_with_patch" in old:
        old["history"].append(old["checks_with_patch"])
    old["checks_with_patch"] = results
    json.dump(old, open(mp, "w"), indent=1)
    print("filed", d, {c: r["outcome"] for c, r in results.items()})
    return 0


if __name__ == "__main__":
    sys.exit(main())
