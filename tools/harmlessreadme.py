#!/usr/bin/env python3
"""tools/harmlessreadme.py: harmless/README.md from harmless/*/meta.json (outcome of every check run with the change applied)."""
import json, os, glob, re
ROOT = os.path.dirname(os.path.dirname(os.path.abspath(__file__)))
rows = []
for mp in sorted(glob.glob(os.path.join(ROOT, "harmless", "*", "meta.json"))):
    m = json.load(open(mp))
    d = os.path.dirname(mp)
    what = ""
    np_ = os.path.join(d, "notes.md")
    if os.path.exists(np_):
        txt = open(np_).read()
        head = [l.strip("# ").strip() for l in txt.split("\n") if l.strip()]
        what = head[0][:160] if head else ""
    out = ", ".join("%s: %s" % (c, r["outcome"]) for c, r in sorted(m["checks_with_patch"].items()))
    hist = m.get("history", [])
    first = ""
    if hist:
        first = " (first run: %s)" % ", ".join("%s: %s" % (c, r["outcome"]) for c, r in sorted(hist[0].items()))
    rows.append("| %s | %s | %s%s |" % (m["name"], what.replace("|", "/"), out, first))
open(os.path.join(ROOT, "harmless", "README.md"), "w").write(
    "# Harmless changes run against the checks (see DESIGN.md 0.9)\n\n"
    "Each directory: `patch.diff` (apply with `git -C /repo apply`), `notes.md` (the author's argument that the property still holds), "
    "`meta.json` (what the checks said with the change applied).\n\n"
    "| change | what it does | outcome of the checks with it applied |\n|---|---|---|\n" + "\n".join(rows) + "\n")
print(len(rows), "rows")
