#!/usr/bin/env python3
"""tools/harmlessprompt.py Cnn: the brief given to a fresh sub-agent that writes property-PRESERVING changes (refactorings,
optimisations, additions a maintainer might make near the property's code), used to look for false alarms of the checks."""
import json, sys
pid = sys.argv[1]
for l in open('/verif/properties.jsonl'):
    p = json.loads(l)
    if p['id'] == pid:
        break
W = "/tmp/mut/wth2-%s" % pid
O = "/tmp/mut/outh2-%s" % pid
print(f"""You are helping to test a verification framework for a Rust project by writing realistic *harmless* source changes: changes a maintainer could plausibly make, after which a given semantic property STILL HOLDS. (The framework must not raise an alarm on them.)

The project is the Rust crate `packing` (malramsay64/pypacking: a research CLI/library that finds dense 2D crystal packings of shapes via Monte Carlo optimisation over wallpaper-group symmetries). You have your OWN scratch git worktree of it at {W} . Work ONLY inside {W} and {O} . Never read, write or run anything under /repo or /verif (they are off limits), do not create other worktrees, and do not use `git stash`. The sandbox has no network; build with `cargo build --offline` / `cargo test --offline --lib --tests` inside the worktree (the doctest in src/ops_macros.rs fails on the pristine tree and is not part of the baseline; ignore it).

Here is the semantic property:

  id: {p['id']}
  title: {p['title']}
  statement: {p['statement']}
  quantified over: {p['quantifier']['text']}
  code it is anchored in: {', '.join(p['anchors']['files'])}

YOUR TASK: produce THREE different, independent source changes to the crate (each a separate small patch against the pristine worktree, touching src/ only), each of which
  (a) changes code IN OR NEAR the code the property is anchored in (not a comment-only or whitespace-only change),
  (b) compiles and passes the ENTIRE existing test suite (`cargo test --offline --lib --tests` must show the same 90 tests passing),
  (c) PRESERVES the property: after the change the statement above is still true for everything it quantifies over. Be careful and honest about this: if in doubt, choose a different change.
Aim for variety over the three, and prefer changes to what a USER or a downstream tool can observe: (1) the command line and its output - a new option with a default that keeps today's behaviour, a changed default of an option the property does not fix (steps, replications, temperatures, verbosity), different or additional log lines, a different exit message, output files written in a different but equivalent layout (indentation, key order within what serde allows, an additional informative field, a trailing newline, more or fewer digits where the property does not demand exactness), extra attributes or comments or a different viewBox in the SVG; (2) representation and bookkeeping - a reordered or additional struct field (with `#[serde(default)]` where needed so old files still load), a `Vec` replaced by another container with the same iteration order, a cached value, a different but equivalent way of seeding or of splitting the work between threads, `par_iter` introduced or removed where the result cannot depend on it, an `unsafe impl` or `Arc` replaced by a safe equivalent; (3) robustness - an input that used to be rejected now accepted (or the reverse) where the property allows either, a panic turned into an error return on a path the property does not cover, an early exit that cannot change any result. Avoid pure renamings and comment changes, and avoid repeating the plain "extract a helper function" refactoring.

For EACH change write notes explaining exactly why the property still holds after it, and what observable behaviour (if any) changed.

Deliverables, written under {O}/ :
  k1/patch.diff   (output of `git diff` for change 1 only, relative to the pristine worktree, src/ files only)
  k1/notes.md     what the change does, why the property still holds, what behaviour changed if any, the commands you ran and the observed test-suite result
  k2/..., k3/...  the same for changes 2 and 3
When done, restore the worktree to pristine (`git checkout -- . && git clean -fdq tests src`). Reply with a brief summary (under 200 words) of the three changes.""")
