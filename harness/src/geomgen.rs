// geomgen.rs - structured generation of geometry cases, per property focus.
use std::f64::consts::PI;

use crate::common::*;
use crate::geom::{is_convex, sat_separation};

const GROUPS: [&str; 7] = ["p1", "p2", "p1m1", "p1g1", "p2mm", "p2mg", "p2gg"];

fn copies(g: &str) -> f64 {
    match g {
        "p1" => 1.,
        "p2" | "p1m1" | "p1g1" => 2.,
        _ => 4.,
    }
}

fn hard_shape(g: &mut Sm) -> (String, f64) {
    match g.below(10) {
        0 | 1 => ("circle".into(), 1.),
        2 => ("trimer:0.637556:120:1".into(), 1.64),
        3 => {
            let r = (g.range(0.4, 1.0) * 1000.).round() / 1000.;
            let ang = 60 + 10 * g.below(13);
            let d = (g.range(0.9, 1.6) * 1000.).round() / 1000.;
            (format!("trimer:{}:{}:{}", fmt_f(r), ang, fmt_f(d)), d + r.max(1.))
        }
        4 => {
            // convex radial polygon
            loop {
                let n = 3 + g.below(5) as usize;
                let lo = *g.pick(&[0.85, 0.85, 0.5, 0.65]);
                let rs: Vec<f64> = if g.chance(0.3) && n % 2 == 0 {
                    // alternating radii (rhombus, alternating hexagon, ...)
                    let r2 = (g.range(lo, 1.0) * 100.).round() / 100.;
                    (0..n).map(|i| if i % 2 == 0 { 1. } else { r2 }).collect()
                } else {
                    (0..n).map(|_| (g.range(lo, 1.0) * 100.).round() / 100.).collect()
                };
                let dt = 2. * PI / n as f64;
                let v: Vec<(f64, f64)> = rs.iter().enumerate().map(|(i, r)| (r * (i as f64 * dt).sin(), r * (i as f64 * dt).cos())).collect();
                if is_convex(&v) {
                    return (format!("radial:{}", rs.iter().map(|r| fmt_f(*r)).collect::<Vec<_>>().join(":")), 1.);
                }
            }
        }
        _ => (format!("polygon:{}", 3 + g.below(6)), 1.),
    }
}

/// C02: every trimer radius / angle / distance, polygons with many sides
fn c02_shape(g: &mut Sm) -> (String, f64) {
    match g.below(5) {
        0 => (format!("polygon:{}", 3 + g.below(62)), 1.),
        1 => hard_shape(g),
        _ => {
            let r = (g.range(0.1, 1.5) * 1000.).round() / 1000.;
            let ang = *g.pick(&[180., 120., 90., 60., 45., 30., 150., 100., 75., 10.]) + if g.chance(0.3) { g.range(-5., 5.) } else { 0. };
            let d = (g.range(0.05, 2.5) * 1000.).round() / 1000.;
            (format!("trimer:{}:{}:{}", fmt_f(r), fmt_f(ang), fmt_f(d)), d + r.max(1.))
        }
    }
}

fn lj_shape(g: &mut Sm) -> String {
    match g.below(3) {
        0 => "circle".into(),
        1 => "trimer:0.637556:120:1".into(),
        _ => format!(
            "trimer:{}:{}:{}",
            fmt_f((g.range(0.4, 1.0) * 100.).round() / 100.),
            60 + 10 * g.below(13),
            fmt_f((g.range(0.8, 1.5) * 100.).round() / 100.)
        ),
    }
}

fn edge_coord(g: &mut Sm) -> f64 {
    *g.pick(&[-0.5, 0.5, 0., -0.0, 0.25, -0.25, 0.5 - 5.551115123125783e-17, -0.5 + 5.551115123125783e-17, 5e-324, -5e-324, 0.499999999, -0.499999999])
}

fn edge_phi(g: &mut Sm) -> f64 {
    let n = 3 + g.below(6);
    *g.pick(&[0., 2. * PI, 6.283185307179585, PI, PI / 2., PI / n as f64, 2. * PI / n as f64, 3. * PI / 2., 1e-300])
}

fn state_params(g: &mut Sm, group: &str, radius: f64, stream: u64) -> String {
    let n = copies(group);
    let mono = group == "p1" || group == "p2";
    let maxlen = 4. * radius * n;
    let (len, ratio, angle) = match stream {
        // the optimiser's bounds, uniformly
        0 => (g.range(0.3 * maxlen, maxlen), g.range(0.1, 1.), if mono { g.range(PI / 6., PI / 2.) } else { PI / 2. }),
        // dense: cell area close to the total shape area
        1 => {
            let ratio = g.range(0.3, 1.);
            let angle = if mono { g.range(PI / 3., PI / 2.) } else { PI / 2. };
            let area = n * PI * radius * radius * g.range(0.5, 1.6);
            ((area / (ratio * angle.sin())).sqrt(), ratio, angle)
        }
        // the borders of the old shell heuristic and of the bounds
        _ => {
            let ratio = *g.pick(&[0.1, 0.3, 0.33333, 0.5, 0.50001, 1., 0.2, 0.7]);
            let angle = if mono { *g.pick(&[PI / 6., PI / 2., PI / 2. - 0.2, PI / 2. - 0.5, PI / 2. - 0.19999, PI / 3., 1.0]) } else { PI / 2. };
            (g.range(0.2 * maxlen, maxlen), ratio, angle)
        }
    };
    let (x, y, phi) = match g.below(4) {
        0 => (edge_coord(g), edge_coord(g), edge_phi(g)),
        1 => (g.range(-0.5, 0.5), edge_coord(g), g.range(0., 2. * PI)),
        _ => (g.range(-0.5, 0.5), g.range(-0.5, 0.5), g.range(0., 2. * PI)),
    };
    // cells loaded from a file may have a side ratio above one
    let ratio = if stream == 2 && g.chance(0.25) { *g.pick(&[1.5, 2., 3., 1.0000001]) } else { ratio };
    // three occupied sites in a sheared cell: two of them close together (around contact), the third between them
    // in fractional x but far away in y - the orders "along x" in fractional and in Cartesian coordinates differ
    if mono && stream != 2 && g.chance(0.04) {
        let angle = *g.pick(&[PI / 6., PI / 4., PI / 3., 1.0, 0.7]);
        let len = g.range(8., 14.) * radius;
        let u = g.range(-0.45, 0.3);
        let v = g.range(-0.3, 0.3);
        let d = 2. * radius * g.range(0.5, 1.5) / len;        // S1-S3 distance: 0.5 .. 1.5 contact distances
        let dirn = g.range(0., 2. * PI);
        let (x3, y3) = (u + d * dirn.cos().abs().max(0.2), v + 0.3 * d * dirn.sin());
        let (x2, y2) = ((u + x3) / 2., if v > 0. { v - g.range(0.35, 0.5) } else { v + g.range(0.35, 0.5) });
        return format!(
            "len={} ratio={} angle={} x={} y={} phi={} k={} zero={} idx={} x2={} y2={} phi2={} x3={} y3={} phi3={}",
            fmt_f(len), fmt_f(*g.pick(&[1., 0.9, 0.8])), fmt_f(angle), fmt_f(u), fmt_f(v), fmt_f(g.range(0., 2. * PI)), g.below(4), g.below(2), g.below(4),
            fmt_f(x2), fmt_f(y2), fmt_f(g.range(0., 2. * PI)), fmt_f(x3), fmt_f(y3), fmt_f(g.range(0., 2. * PI)));
    }
    let second = if g.chance(0.12) {
        let third = if g.chance(0.3) {
            format!(" x3={} y3={} phi3={}", fmt_f(g.range(-0.5, 0.5)), fmt_f(g.range(-0.5, 0.5)), fmt_f(g.range(0., 2. * PI)))
        } else { String::new() };
        format!(" x2={} y2={} phi2={}{}", fmt_f(g.range(-0.5, 0.5)), fmt_f(g.range(-0.5, 0.5)), fmt_f(g.range(0., 2. * PI)), third)
    } else { String::new() };
    format!(
        "len={} ratio={} angle={} x={} y={} phi={} k={} zero={} idx={}{}",
        fmt_f(len * if second.is_empty() { 1. } else { 1.5 }), fmt_f(ratio), fmt_f(angle), fmt_f(x), fmt_f(y), fmt_f(phi), g.below(4), g.below(2), g.below(4), second
    )
}

/// C01: the region where the old shell heuristic was insufficient, and its analogues: copies close to
/// opposite cell faces in flat cells
fn c01_targeted(g: &mut Sm) -> String {
    let group = *g.pick(&["p2", "p2", "p2gg", "p2mg", "p1g1", "p1", "p2mm", "p1m1"]);
    let (shape, radius) = match g.below(4) {
        0 => ("polygon:3".to_string(), 1.),
        1 => (format!("polygon:{}", 3 + 2 * g.below(3)), 1.),
        2 => ("trimer:0.637556:120:1".to_string(), 1.64),
        _ => hard_shape(g),
    };
    let mono = group == "p1" || group == "p2";
    let angle = if mono { g.range(PI / 2. - 0.45, PI / 2.) } else { PI / 2. };
    // cell height between the shape's width and two enclosing diameters
    let b = g.range(1.2, 2.4) * radius;
    let len = g.range(1.0, 2.2) * b;
    let ratio = (b / len).min(1.);
    let y = if g.chance(0.5) { g.range(0.40, 0.5) } else { -g.range(0.40, 0.5) };
    format!(
        "kind=hard group={} shape={} len={} ratio={} angle={} x={} y={} phi={} k=1 zero=0 idx=0",
        group, shape, fmt_f(len), fmt_f(ratio), fmt_f(angle), fmt_f(g.range(-0.5, 0.5)), fmt_f(y), fmt_f(g.range(0., 2. * PI))
    )
}

fn placed(items: &[(f64, f64)], phi: f64, x: f64, y: f64, mirror: bool) -> Vec<(f64, f64)> {
    let (c, s) = (phi.cos(), phi.sin());
    items
        .iter()
        .map(|p| {
            let (rx, ry) = (c * p.0 - s * p.1, s * p.0 + c * p.1);
            (if mirror { -rx } else { rx } + x, ry + y)
        })
        .collect()
}

fn pair_case(g: &mut Sm) -> String {
    // polygons: place the second copy at the contact distance along a direction, +- delta
    let poly = g.chance(0.7);
    let delta = 10f64.powf(g.range(-13., -1.)) * if g.chance(0.5) { 1. } else { -1. };
    let common = if g.chance(0.5) {
        // (some motions carry the pair far from the origin: the answer may not depend on where the pair is)
        // (discs up to 3e5 away; polygons up to 3e3: the edge test multiplies coordinates, beyond that its rounding error
        //  reaches the 1e-9 the separation is judged by)
        let far = if g.chance(0.15) { if poly { *g.pick(&[1e2, 1e3]) } else { *g.pick(&[1e3, 1e4, 1e5]) } } else { 1. };
        format!(" common={}:{}:{}:{}", fmt_f(g.range(0., 2. * PI)), fmt_f(g.range(-3., 3.) * far), fmt_f(g.range(-3., 3.) * far), g.below(2))
    } else {
        String::new()
    };
    if poly {
        let n = 3 + g.below(6) as usize;
        let (shape, verts): (String, Vec<(f64, f64)>) = if g.chance(0.75) {
            let dt = 2. * PI / n as f64;
            (format!("polygon:{}", n), (0..n).map(|i| ((i as f64 * dt).sin(), (i as f64 * dt).cos())).collect())
        } else {
            loop {
                let lo = *g.pick(&[0.85, 0.5, 0.65]);
                let rs: Vec<f64> = if g.chance(0.4) && n % 2 == 0 {
                    let r2 = (g.range(lo, 1.0) * 100.).round() / 100.;
                    (0..n).map(|i| if i % 2 == 0 { 1. } else { r2 }).collect()
                } else {
                    (0..n).map(|_| (g.range(lo, 1.0) * 100.).round() / 100.).collect()
                };
                let dt = 2. * PI / n as f64;
                let v: Vec<(f64, f64)> = rs.iter().enumerate().map(|(i, r)| (r * (i as f64 * dt).sin(), r * (i as f64 * dt).cos())).collect();
                if is_convex(&v) {
                    break (format!("radial:{}", rs.iter().map(|r| fmt_f(*r)).collect::<Vec<_>>().join(":")), v);
                }
            }
        };
        let mirror = g.chance(0.3);
        let kind = g.below(6);
        let phi2 = match kind {
            0 => 0.,                                         // parallel edges
            1 => PI / n as f64 * g.below(2 * n as u64) as f64, // aligned multiples
            2 => 2. * PI,
            _ => g.range(0., 2. * PI),
        };
        if kind == 5 {
            // coincident or nearly coincident copies
            let e = *g.pick(&[0., 1e-12, 1e-9, 1e-6, 1e-3]);
            return format!("mode=pair shape={} t1=0:0:0:0 t2={}:{}:{}:0{}", shape, fmt_f(0.), fmt_f(e), fmt_f(-e), common);
        }
        let theta = match kind {
            0 => PI / n as f64 * g.below(2 * n as u64) as f64 + if g.chance(0.5) { 0. } else { PI / 2. }, // along an edge normal / edge
            _ => g.range(0., 2. * PI),
        };
        let a = placed(&verts, 0., 0., 0., false);
        // bisection on the distance along theta for the contact (sep = 0)
        let (mut lo, mut hi) = (0.0f64, 4.0f64);
        for _ in 0..80 {
            let mid = 0.5 * (lo + hi);
            let b = placed(&verts, phi2, mid * theta.cos(), mid * theta.sin(), mirror);
            if sat_separation(&a, &b) < 0. {
                lo = mid;
            } else {
                hi = mid;
            }
        }
        let d = hi + delta;
        format!(
            "mode=pair shape={} t1=0:0:0:0 t2={}:{}:{}:{}{}",
            shape, fmt_f(phi2), fmt_f(d * theta.cos()), fmt_f(d * theta.sin()), if mirror { 1 } else { 0 }, common
        )
    } else {
        let shape = match g.below(3) {
            0 => "circle".to_string(),
            1 => "trimer:0.637556:120:1".to_string(),
            _ => format!("trimer:{}:{}:{}", fmt_f((g.range(0.4, 1.0) * 100.).round() / 100.), 60 + 10 * g.below(13), fmt_f((g.range(0.9, 1.5) * 100.).round() / 100.)),
        };
        // discs: random placement near contact of the bounding radii; the oracle computes the true separation
        let theta = g.range(0., 2. * PI);
        if g.chance(0.1) {
            // coincident or nearly coincident copies (a copy and its mirror image on one site, an identical copy)
            let e = *g.pick(&[0., 0., 1e-12, 1e-9, 1e-6, 1e-3]);
            let phi2 = if g.chance(0.5) { 0. } else { g.range(0., 2. * PI) };
            return format!("mode=pair shape={} t1=0:0:0:0 t2={}:{}:{}:{}{}", shape, fmt_f(phi2), fmt_f(e), fmt_f(-e), g.below(2), common);
        }
        let d = if shape == "circle" { 2. + delta } else { g.range(1.2, 3.6) };
        format!(
            "mode=pair shape={} t1=0:0:0:0 t2={}:{}:{}:{}{}",
            shape, fmt_f(g.range(0., 2. * PI)), fmt_f(d * theta.cos()), fmt_f(d * theta.sin()), g.below(2), common
        )
    }
}

/// C01: exactly aligned states that bound clamping makes reachable (orientation 0 or 2 pi, site
/// coordinates on the bounds) in cells small enough that copies or images overlap substantially
fn c01_aligned(g: &mut Sm) -> String {
    let group = *g.pick(&GROUPS);
    let n = 3 + g.below(6);
    let mono = group == "p1" || group == "p2";
    let angle = if mono { *g.pick(&[PI / 2., PI / 2., PI / 3., PI / 6., 1.2]) } else { PI / 2. };
    let len = g.range(0.6, 3.5);
    let ratio = *g.pick(&[1., 1., 0.5, 0.75, 0.1]);
    let phi = *g.pick(&[0., 0., 2. * PI, 6.283185307179585]);
    let c = |g: &mut Sm| -> f64 {
        if g.chance(0.5) { *g.pick(&[-0.5, 0.5, 0., 0.25, -0.25]) } else { g.range(-0.5, 0.5) }
    };
    format!(
        "kind=hard group={} shape=polygon:{} len={} ratio={} angle={} x={} y={} phi={} k=1 zero=0 idx=0",
        group, n, fmt_f(len), fmt_f(ratio), fmt_f(angle), fmt_f(c(g)), fmt_f(c(g)), fmt_f(phi)
    )
}

fn lj2_case(g: &mut Sm) -> String {
    let sg = |g: &mut Sm| -> f64 { *g.pick(&[1., 2., 1.275112, 0.5, 0.1, 5., 0.8, 3.3]) };
    let ep = |g: &mut Sm| -> f64 { *g.pick(&[1., 1., 0.5, 2., 0.1, 5.]) };
    let s1 = sg(g);
    let e1 = ep(g);
    let c1: Option<f64> = match g.below(4) { 0 => None, 1 => Some(2.5 * s1), 2 => Some(3.5), _ => Some(g.range(1.2, 6.)) };
    let like = g.chance(0.6);
    let (s2, e2, c2) = if like { (s1, e1, c1) } else { (sg(g), ep(g), if g.chance(0.5) { c1 } else { None }) };
    // distances: log-uniform, the minimum 2^(1/6) sigma, and straddling the cutoff by a few ulps
    let r = match (g.below(6), c1) {
        (0, _) => 1.122462048309373 * s1 * (1. + g.range(-1e-3, 1e-3)),
        (1, Some(c)) => c * (1. + *g.pick(&[-2.2e-16, 2.2e-16, -1e-12, 1e-12, -1e-6, 1e-6, 0.])),
        (2, Some(c)) => c * g.range(1.0, 3.0),
        _ => 10f64.powf(g.range(-0.5, 1.0)) * s1 * 0.6,
    };
    let common = if g.chance(0.5) {
        format!(" common={}:{}:{}:{}", fmt_f(g.range(0., 2. * PI)), fmt_f(g.range(-3., 3.)), fmt_f(g.range(-3., 3.)), g.below(2))
    } else { String::new() };
    // (the same pair far from the origin: coordinates of 1e5 .. 1e9, as a library caller or a huge cell may have)
    let far = if g.chance(0.12) { format!(" far={}", fmt_f(*g.pick(&[1e5, 1e6, 3e7, 1e8, 1e9]))) } else { String::new() };
    format!("mode=lj2 s1={} e1={} c1={} s2={} e2={} c2={} r={} th={}{}{}", fmt_f(s1), fmt_f(e1), fmt_fo(c1), fmt_f(s2), fmt_f(e2), fmt_fo(c2), fmt_f(r), fmt_f(g.range(0., 2. * PI)), common, far)
}

/// C09 / C10: three variants of one state whose scores are equal, or a few ulps apart, or clearly different;
/// Lennard-Jones states include compressed cells (negative scores)
fn order_case(g: &mut Sm) -> String {
    let group = *g.pick(&GROUPS);
    let lj = g.chance(0.5);
    let ulps = |g: &mut Sm| -> String {
        let mut pickd = |g: &mut Sm| -> i64 { *g.pick(&[0i64, 0, 1, -1, 2, 3, -2, 5, 40, -40, 1_000_000, -1_000_000, 1 << 40]) };
        format!("{}:{}:{}", pickd(g), pickd(g), pickd(g))
    };
    let (dlen, dx) = match g.below(4) {
        0 => ("0:0:0".to_string(), ulps(g)),          // same score (p1: x does not matter), different identity
        1 => (ulps(g), "0:0:0".to_string()),
        _ => (ulps(g), ulps(g)),
    };
    if lj {
        let shape = lj_shape(g);
        let mono = group == "p1" || group == "p2";
        // from compressed (net repulsive: negative score) to relaxed cells
        let len = copies(group) * *g.pick(&[0.9, 1.2, 1.6, 2.0, 2.6, 3.5, 5.0]) * g.range(0.9, 1.1);
        let angle = if mono { g.range(PI / 3., PI / 2.) } else { PI / 2. };
        format!("mode=order kind=lj group={} shape={} len={} ratio={} angle={} x={} y={} phi={} dlen={} dx={}",
                group, shape, fmt_f(len), fmt_f(g.range(0.5, 1.)), fmt_f(angle), fmt_f(g.range(-0.4, 0.4)), fmt_f(g.range(-0.4, 0.4)), fmt_f(g.range(0., 2. * PI)), dlen, dx)
    } else {
        let (shape, radius) = hard_shape(g);
        let mono = group == "p1" || group == "p2";
        let angle = if mono { g.range(PI / 3., PI / 2.) } else { PI / 2. };
        // mostly roomy (defined score), sometimes overlapping (no score: unordered)
        let len = 4. * radius * copies(group) / angle.sin() * *g.pick(&[1.1, 1.3, 2., 1.0, 0.3]);
        // half of the hard cases also rank the state against one of ANOTHER group (other copy count, roomier or
        // tighter cell): the denser one must win whatever the cell sizes are
        let cross = if g.chance(0.5) {
            let g2 = *g.pick(&["p1", "p2", "p2mg", "p2gg", "p1m1"]);
            let len2 = 4. * radius * copies(g2) * *g.pick(&[1.05, 1.2, 1.5, 2.5, 4.]);
            format!(" group2={} len2={}", g2, fmt_f(len2))
        } else { String::new() };
        format!("mode=order kind=hard group={} shape={} len={} ratio={} angle={} x={} y={} phi={} dlen={} dx={}{}",
                group, shape, fmt_f(len), fmt_f(g.range(0.6, 1.)), fmt_f(angle), fmt_f(g.range(-0.4, 0.4)), fmt_f(g.range(-0.4, 0.4)), fmt_f(g.range(0., 2. * PI)), dlen, dx, cross)
    }
}

pub fn gen(focus: &str, seed: u64, count: u64) -> Vec<String> {
    let mut g = Sm::new(seed.wrapping_mul(2_000_003) ^ hash2(77, focus.bytes().map(|b| b as u64).sum()));
    let mut out = vec![];
    for i in 0..count {
        let body = match focus {
            "ORD" => order_case(&mut g),
            "C12" => pair_case(&mut g),
            "C01" if g.chance(0.5) => c01_targeted(&mut g),
            "C01" if g.chance(0.5) => c01_aligned(&mut g),
            "C01a" => c01_aligned(&mut g),
            "C13" if g.chance(0.1) => {
                // two different molecules
                let sh = |g: &mut Sm| -> String { if g.chance(0.25) { "circle".to_string() } else { lj_shape(g) } };
                let (a, b) = (sh(&mut g), sh(&mut g));
                let d = *g.pick(&[0.5, 1.5, 2.5, 3.2, 3.6, 4.2, 5.0, 6.5]) * g.range(0.9, 1.1);
                let th = g.range(0., 2. * PI);
                let common = format!(" common={}:{}:{}:{}", fmt_f(g.range(0., 2. * PI)), fmt_f(g.range(-3., 3.)), fmt_f(g.range(-3., 3.)), g.below(2));
                format!("mode=ljm a={} b={} t1={}:0.3:-0.2:{} t2={}:{}:{}:{}{}", a, b, fmt_f(g.range(0., 2. * PI)), g.below(2),
                        fmt_f(g.range(0., 2. * PI)), fmt_f(0.3 + d * th.cos()), fmt_f(-0.2 + d * th.sin()), g.below(2), common)
            }
            "C13" if g.chance(0.7) => lj2_case(&mut g),
            "C13" | "C03" => {
                let group = *g.pick(&GROUPS);
                let shape = lj_shape(&mut g);
                let stream = g.below(3);
                // molecules of unlike particles: some cut, some not, different depths (library / file states)
                let over = if g.chance(0.2) {
                    let c = |g: &mut Sm| -> String { match g.below(3) { 0 => "-".to_string(), 1 => "3.5".to_string(), _ => fmt_f((g.range(1.5, 6.) * 10.).round() / 10.) } };
                    let e = |g: &mut Sm| -> String { fmt_f(*g.pick(&[1., 1., 0.5, 2.])) };
                    format!(" cuts={}:{}:{} epss={}:{}:{}", c(&mut g), c(&mut g), c(&mut g), e(&mut g), e(&mut g), e(&mut g))
                } else { String::new() };
                format!("kind=lj group={} shape={} {}{}", group, shape, state_params(&mut g, group, 1.5, stream), over)
            }
            "C02" => {
                let group = *g.pick(&GROUPS);
                let (shape, radius) = c02_shape(&mut g);
                let stream = g.below(3);
                format!("kind=hard group={} shape={} {}", group, shape, state_params(&mut g, group, radius, stream))
            }
            "C08" if g.chance(0.85) => {
                // chains of hot stages from the initial state of every group x shape x potential
                let group = *g.pick(&GROUPS);
                let lj = g.chance(0.5);
                let (shape, radius) = if lj { (lj_shape(&mut g), 1.5) } else { hard_shape(&mut g) };
                // ... or from a valid state loaded from a file: roomy cell, side ratio possibly above one
                let start = if g.chance(0.3) {
                    let mono = group == "p1" || group == "p2";
                    let ratio = *g.pick(&[1.5, 2., 3., 1.0000001, 0.7, 1.25]);
                    let angle = if mono { g.range(PI / 6., PI / 2.) } else { PI / 2. };
                    let len = 4. * radius * copies(group) / angle.sin() * g.range(1., 1.5);
                    format!(" len={} ratio={} angle={} x={} y={} phi={}", fmt_f(len), fmt_f(ratio), fmt_f(angle),
                            fmt_f(g.range(-0.5, 0.5)), fmt_f(g.range(-0.5, 0.5)), fmt_f(g.range(0., 2. * PI)))
                } else { String::new() };
                format!(
                    "kind={} group={} shape={} opt={}:{}:{}:{} k=1 zero=0 idx=0{}",
                    if lj { "lj" } else { "hard" }, group, shape,
                    *g.pick(&[100u64, 400, 1000]), g.below(1000), fmt_f(*g.pick(&[0., 0.1, 0.5, 2.])), 1 + g.below(5), start
                )
            }
            "C04" | "C08" | "C01" | "C10" if g.chance(0.12) => {
                // optimised from the initial state (a clone is optimised, as the command line does)
                let group = *g.pick(&GROUPS);
                let lj = focus != "C01" && g.chance(0.3);
                let shape = if lj { lj_shape(&mut g) } else { hard_shape(&mut g).0 };
                format!(
                    "kind={} group={} shape={} opt={}:{}:{}:{} k=1 zero=0 idx=0",
                    if lj { "lj" } else { "hard" }, group, shape,
                    *g.pick(&[200u64, 600, 1500]), g.below(1000), fmt_f(*g.pick(&[0., 0.1, 0.5])), 1 + g.below(3)
                )
            }
            _ => {
                let group = *g.pick(&GROUPS);
                let lj = match focus {
                    "C01" | "C02" => false,
                    _ => g.chance(0.3),
                };
                let stream = g.below(3);
                if lj {
                    let shape = lj_shape(&mut g);
                    format!("kind=lj group={} shape={} {}", group, shape, state_params(&mut g, group, 1.5, stream))
                } else {
                    let (shape, radius) = hard_shape(&mut g);
                    format!("kind=hard group={} shape={} {}", group, shape, state_params(&mut g, group, radius, stream))
                }
            }
        };
        // cells of the other crystal families (library / file states): hexagonal (60 degrees, equal sides), tetragonal;
        // for C14 also a cell whose angle contradicts the family its group declares
        let body = if (focus == "C02" || focus == "C14" || focus == "C11") && body.contains(" len=") && !body.contains("opt=") && !body.contains("mode=") {
            let pick = g.below(100);
            let set = |body: &str, angle: Option<f64>, ratio: Option<f64>, fam: Option<&str>| -> String {
                let mut out: Vec<String> = body.split(' ').map(|t| {
                    if t.starts_with("angle=") { if let Some(a) = angle { return format!("angle={}", fmt_f(a)); } }
                    if t.starts_with("ratio=") { if let Some(r) = ratio { return format!("ratio={}", fmt_f(r)); } }
                    t.to_string()
                }).collect();
                if let Some(f) = fam { out.push(format!("family={}", f)); }
                out.join(" ")
            };
            if pick < 8 { set(&body, Some(PI / 3.), Some(1.), Some("Hexagonal")) }
            else if pick < 12 { set(&body, Some(PI / 2.), Some(1.), Some("Tetragonal")) }
            else if pick < 18 && focus == "C14" { let a = g.range(PI / 6., 2.6); set(&body, Some(a), None, None) }
            else { body }
        } else { body };
        // states whose sites carry another rotation count (a field only a file can set; nothing may depend on it)
        let body = if (focus == "C08" || focus == "C15" || focus == "C11" || focus == "C04" || focus == "C02" || focus == "C03" || focus == "C01" || focus == "C14")
            && body.contains(" len=") && !body.contains("mode=") && g.chance(0.06) {
            format!("{} rots={}", body, *g.pick(&[0u64, 0, 2, 3, 7]))
        } else { body };
        // a state of another group of the same order with the same parameters is built on the same thread just before
        let body = if (focus == "C15" || focus == "C04" || focus == "C14" || focus == "C01" || focus == "C03") && body.contains(" len=") && !body.contains("mode=") && g.chance(0.06) {
            let grp = body.split(' ').find_map(|t| t.strip_prefix("group=")).unwrap_or("p1").to_string();
            let same_order: &[&str] = match grp.as_str() { "p1" => &["p1"], "p2" | "p1m1" | "p1g1" => &["p2", "p1m1", "p1g1"], _ => &["p2mm", "p2mg", "p2gg"] };
            let other: Vec<&&str> = same_order.iter().filter(|x| **x != grp.as_str()).collect();
            if other.is_empty() { body } else { format!("{} prev={}", body, other[g.below(other.len() as u64) as usize]) }
        } else { body };
        // C15 / C04: sites a file or the library can describe but the optimiser never reaches: coordinates outside
        // [-1/2, 1/2] (the copies must still be wrapped into the one canonical cell)
        let body = if (focus == "C15" || focus == "C04") && body.contains(" x=") && !body.contains("mode=") && !body.contains("opt=") && g.chance(0.08) {
            // (a few cells away, or - exactly representable - millions and billions of cells away)
            let far = |g: &mut Sm| -> f64 {
                if g.chance(0.7) { g.range(-3.2, 3.2) }
                else { *g.pick(&[0.25 + 2147483648., -(0.25 + 4294967296.), 0.375 + 1099511627776., -1000000.125, 65536.5, -2147483648.75]) }
            };
            let (nx, ny) = (far(&mut g), far(&mut g));
            body.split(' ').map(|t| if t.starts_with("x=") { format!("x={}", fmt_f(nx)) } else if t.starts_with("y=") { format!("y={}", fmt_f(ny)) } else { t.to_string() }).collect::<Vec<_>>().join(" ")
        } else { body };
        // C14: shell counts outside the optimiser's usual 0..3: negative (an empty range), and large
        let body = if focus == "C14" && body.contains(" k=") && !body.contains("mode=") && g.chance(0.08) {
            let k = *g.pick(&[-1i64, -1, -2, -7, 7, 25]);
            body.split(' ').map(|t| if t.starts_with("k=") { format!("k={}", k) } else { t.to_string() }).collect::<Vec<_>>().join(" ")
        } else { body };
        // C11: cells a file can describe but the optimiser never reaches: nearly degenerate, obtuse, reflex and negative
        // angles (what is drawn must still be the structure)
        let body = if focus == "C11" && body.contains(" angle=") && !body.contains("mode=") && !body.contains("family=") && g.chance(0.06) {
            let a = *g.pick(&[1e-6, 1e-9, 3.0, 2.2, 4.0, 5.5, -0.7, 3.141592653589793]);
            body.split(' ').map(|t| if t.starts_with("angle=") { format!("angle={}", fmt_f(a)) } else { t.to_string() }).collect::<Vec<_>>().join(" ")
        } else { body };
        // C11: structures at very small and very large length scales (what is written must be the structure, not a tidied one)
        // (not for the nearly flat cells above: a huge, nearly flat cell has area but next to no height, and scoring it
        //  asks for ~1e6 shells of images - the crate's shell count is right, it just never finishes)
        let flat = body.split(' ').find_map(|t| t.strip_prefix("angle=")).map(|v| parse_f(v).sin().abs() < 0.2).unwrap_or(false);
        let body = if focus == "C11" && body.contains(" len=") && !body.contains("mode=") && !flat && g.chance(0.08) {
            let k = *g.pick(&[1e-13, 1e-20, 1e-30, 1e-6, 1e10, 1e30]);
            body.split(' ').map(|t| {
                if let Some(v) = t.strip_prefix("len=") { format!("len={}", fmt_f(parse_f(v) * k)) } else { t.to_string() }
            }).collect::<Vec<_>>().join(" ")
        } else { body };
        // C11: values that came from single precision (every digit of them must survive the JSON text)
        let body = if focus == "C11" && g.chance(0.3) {
            body.split(' ')
                .map(|t| {
                    let mut it = t.splitn(2, '=');
                    let (k, v) = (it.next().unwrap_or(""), it.next());
                    match (k, v) {
                        ("len", Some(v)) | ("ratio", Some(v)) | ("x", Some(v)) | ("y", Some(v)) | ("phi", Some(v)) => {
                            format!("{}={}", k, fmt_f(parse_f(v) as f32 as f64))
                        }
                        _ => t.to_string(),
                    }
                })
                .collect::<Vec<_>>()
                .join(" ")
        } else {
            body
        };
        out.push(format!("geom id={}-{} {}", focus, i, body));
    }
    out
}
