// opt.rs - the `opt` engine: drives MCOptimiser::optimise_state through the public State
// trait, records every score() call, replays the random stream the run consumed, and
// evaluates the direct monitors of C05 C06 C07 C08 C18 C19 C20 on the recorded history.
//
// Case file (read by ocaml/engine_opt.ml):
//   K <spec>                     B <builder settings>      P <initial cells>
//   H <cell> <min> <max>  (one per handle)                 D <idx> <g> <thr>  (one per draw)
//   C <score|N> <cells...> (one per score() call)          F <final cells>   O <outcome>   E
use std::panic::{catch_unwind, AssertUnwindSafe};
use std::rc::Rc;
use std::str::FromStr;
use std::sync::{Arc, Mutex};

use rand::distributions::{Distribution, Uniform};
use rand::{Rng, SeedableRng};
use rand_pcg::Pcg64Mcg;
use serde::{Serialize, Serializer};
use structopt::StructOpt;

use packing::traits::{Basis, Potential, State, ToSVG};
use packing::wallpaper::{get_wallpaper_group, WallpaperGroups};
use packing::{
    BuildOptimiser, Intersect, LJShape2, LineShape, MolecularShape2, PackedState, PotentialState,
    Shape, SharedValue, StandardBasis,
};

use crate::common::*;

#[derive(Clone, Debug)]
pub struct Call {
    pub score: Option<f64>,
    pub vec: Vec<f64>,
}

#[derive(Clone, Debug)]
pub struct Settings {
    pub steps: u64,
    pub kt_start: f64,
    pub kt_finish: Option<f64>,
    pub kt_ratio: Option<f64>,
    pub max_step: f64,
    pub inner: u64,
    pub conv: Option<f64>,
    pub seed: u64,
    pub reuse: bool,
    /// how the optimiser is configured: "cli" = parsed from arguments as main.rs does; "si" / "is" = the library's
    /// setters on BuildOptimiser::default(), steps before inner_steps or the other way round
    pub order: String,
}

impl Settings {
    pub fn from_spec(s: &Spec) -> Settings {
        let st = Settings {
            steps: s.u("steps"),
            kt_start: s.f("kt_start"),
            kt_finish: s.fo("kt_finish"),
            kt_ratio: s.fo("kt_ratio"),
            max_step: s.f("max_step"),
            inner: s.u("inner"),
            conv: s.fo("conv"),
            seed: s.u("seed"),
            reuse: s.u_or("reuse", 0) == 1,
            order: s.get_or("order", "cli").to_string(),
        };
        // the library's default builder has kt_finish = Some(0.001) and no way to unset it
        let mut st = st;
        if st.order != "cli" && st.kt_finish.is_none() {
            st.kt_finish = Some(0.001);
        }
        st
    }
    pub fn to_spec(&self) -> String {
        format!(
            "steps={} inner={} kt_start={} kt_finish={} kt_ratio={} max_step={} conv={} seed={}",
            self.steps,
            self.inner,
            fmt_f(self.kt_start),
            fmt_fo(self.kt_finish),
            fmt_fo(self.kt_ratio),
            fmt_f(self.max_step),
            fmt_fo(self.conv),
            self.seed
        )
    }
    /// Built exactly as the command line does it (structopt), then the library setters.
    pub fn builder(&self) -> BuildOptimiser {
        if self.order != "cli" {
            let mut b = BuildOptimiser::default();
            if self.order == "is" {
                b.inner_steps(self.inner).steps(self.steps);
            } else {
                b.steps(self.steps).inner_steps(self.inner);
            }
            b.kt_start(self.kt_start).max_step_size(self.max_step).kt_ratio(self.kt_ratio).convergence(self.conv).seed(self.seed);
            if let Some(f) = self.kt_finish {
                b.kt_finish(f);
            }
            return b;
        }
        let mut args: Vec<String> = vec![
            "opt".into(),
            format!("--steps={}", self.steps),
            format!("--kt-start={:?}", self.kt_start),
            format!("--max-step-size={:?}", self.max_step),
            format!("--inner-steps={}", self.inner),
        ];
        if let Some(f) = self.kt_finish {
            args.push(format!("--kt-finish={:?}", f));
        }
        if let Some(r) = self.kt_ratio {
            args.push(format!("--kt-ratio={:?}", r));
        }
        if let Some(c) = self.conv {
            args.push(format!("--convergence={:?}", c));
        }
        let mut b = BuildOptimiser::from_iter_safe(args).expect("builder arguments");
        b.seed(self.seed);
        b
    }
    pub fn inner_eff(&self) -> u64 {
        self.inner.min(self.steps)
    }
    pub fn loops(&self) -> u64 {
        let i = self.inner_eff();
        if i == 0 {
            0
        } else {
            self.steps / i
        }
    }
    /// The cooling factor the property (C18) states.
    pub fn spec_factor(&self) -> f64 {
        match (self.kt_ratio, self.kt_finish) {
            (Some(r), _) => f64::max(0., 1. - r),
            (None, Some(f)) if self.kt_start > 0. && self.loops() > 0 => {
                f64::powf(f / self.kt_start, 1. / self.loops() as f64)
            }
            _ => 0.1,
        }
    }
    /// temperature of loop i (0-based) as the property states it
    pub fn spec_kt(&self, i: u64) -> f64 {
        if self.kt_start == 0. {
            return 0.;
        }
        let f = self.spec_factor();
        let mut kt = self.kt_start;
        for _ in 0..i {
            kt *= f;
        }
        kt
    }
}

pub fn replay_draws(seed: u64, n_handles: usize, count: u64) -> Vec<(usize, f64, f64)> {
    let mut rng = Pcg64Mcg::seed_from_u64(seed);
    let dist = Uniform::new(0, n_handles);
    (0..count)
        .map(|_| {
            let i = dist.sample(&mut rng);
            let g: f64 = rng.gen_range(-0.5, 0.5);
            let t: f64 = rng.gen();
            (i, g, t)
        })
        .collect()
}

// ---------------------------------------------------------------------------------------
// Scripted state

#[derive(Clone, Debug, PartialEq)]
pub enum Script {
    /// smooth positive landscape with a forbidden band (score None)
    Smooth,
    /// the smooth landscape quantised to steps of `1/levels`: many equal scores, plateaus
    Plateau,
    /// decisions forced per step: strictly better, or undefined; rejection rate per loop
    Forced,
    /// threshold-aware: proposals placed just either side of the acceptance boundary
    LnThr,
    /// like Forced but sometimes answers NaN / +inf
    Weird,
    /// constant score (the warm-up state of reuse=1)
    Flat,
    /// scores on an exact grid of 1/4: a loop improves by exactly 0, 1/4, 1/2 ... - improvements EQUAL to a
    /// convergence threshold of 1/4 or 1/2 recur (C20: "less than the threshold", consecutive loops)
    Quant,
}

pub struct ScriptState {
    pub believed: f64, // the score the script believes the optimiser currently holds
    pub calls: u64,
}

pub struct Scripted {
    pub cells: Vec<SharedValue>,
    pub handles: Vec<(usize, f64, f64)>,
    pub script: Script,
    pub sseed: u64,
    pub settings: Settings,
    pub thresholds: Arc<Vec<f64>>,
    pub log: Arc<Mutex<Vec<Call>>>,
    pub st: Arc<Mutex<ScriptState>>,
}

impl Clone for Scripted {
    fn clone(&self) -> Self {
        Scripted {
            cells: self.cells.iter().map(|c| SharedValue::new(c.get_value())).collect(),
            handles: self.handles.clone(),
            script: self.script.clone(),
            sseed: self.sseed,
            settings: self.settings.clone(),
            thresholds: self.thresholds.clone(),
            log: self.log.clone(),
            st: self.st.clone(),
        }
    }
}

impl std::fmt::Debug for Scripted {
    fn fmt(&self, f: &mut std::fmt::Formatter) -> std::fmt::Result {
        write!(f, "Scripted")
    }
}
impl Serialize for Scripted {
    fn serialize<S: Serializer>(&self, s: S) -> Result<S::Ok, S::Error> {
        let v: Vec<f64> = self.cells.iter().map(|c| c.get_value()).collect();
        v.serialize(s)
    }
}
impl PartialEq for Scripted {
    fn eq(&self, _o: &Self) -> bool {
        false
    }
}
impl Eq for Scripted {}
impl PartialOrd for Scripted {
    fn partial_cmp(&self, _o: &Self) -> Option<std::cmp::Ordering> {
        None
    }
}
impl Ord for Scripted {
    fn cmp(&self, _o: &Self) -> std::cmp::Ordering {
        std::cmp::Ordering::Equal
    }
}
impl ToSVG for Scripted {
    type Value = svg::Document;
    fn as_svg(&self) -> Self::Value {
        svg::Document::new()
    }
}

fn smooth_value(sseed: u64, v: &[f64]) -> Option<f64> {
    let mut acc = 0.;
    for (i, x) in v.iter().enumerate() {
        let c = (hash2(sseed, i as u64) % 1000) as f64 / 1000.;
        let w = 1. + (hash2(sseed, 100 + i as u64) % 5) as f64;
        acc += w * (x - c) * (x - c);
    }
    // forbidden band on the first coordinate
    let band = (hash2(sseed, 999) % 1000) as f64 / 1000.;
    if !v.is_empty() && (v[0] - band).abs() < 0.03 {
        return None;
    }
    Some(1. / (1. + acc))
}

impl Scripted {
    fn script_score(&self, v: &[f64]) -> Option<f64> {
        let mut st = self.st.lock().unwrap();
        let k = st.calls;
        st.calls += 1;
        let s = &self.settings;
        // the final validity assertion re-scores the held state: answer with its score
        if k > s.loops() * s.inner_eff() && self.script != Script::Smooth && self.script != Script::Plateau && self.script != Script::Flat {
            return Some(st.believed);
        }
        match self.script {
            Script::Flat => Some(1.0),
            Script::Smooth => smooth_value(self.sseed, v),
            Script::Plateau => smooth_value(self.sseed, v).map(|x| (x * 40.).floor() / 40.),
            Script::Forced | Script::Weird => {
                if k == 0 {
                    st.believed = 0.5;
                    return Some(0.5);
                }
                let inner = s.inner_eff().max(1);
                let lp = (k - 1) / inner;
                let rates = [0.0, 0.25, 0.75, 1.0, 0.5];
                let rate = rates[(hash2(self.sseed, 7000 + lp) % 5) as usize];
                let u = (hash2(self.sseed, k) % 10000) as f64 / 10000.;
                if self.script == Script::Weird && hash2(self.sseed, 50_000 + k) % 11 == 0 {
                    // a score that is not a number must never be accepted (C07/C08)
                    return Some(f64::NAN);
                }
                if u < rate {
                    None
                } else {
                    let inc = 1e-3 * (1. + (hash2(self.sseed, 90_000 + k) % 7) as f64);
                    st.believed += inc;
                    Some(st.believed)
                }
            }
            Script::Quant => {
                if k == 0 {
                    st.believed = 8.0;
                    return Some(8.0);
                }
                let inner = s.inner_eff().max(1);
                let lp = (k - 1) / inner;
                let pos = (k - 1) % inner;
                let cur = st.believed;
                // the regime of this loop: no change / exactly one step of 1/4 / exactly two / a mix
                let regime = [0u64, 0, 0, 0, 0, 1, 1, 1, 2, 3][(hash2(self.sseed, 7000 + lp) % 10) as usize];
                let up = |st: &mut ScriptState, d: f64| { st.believed = cur + d; Some(st.believed) };
                match regime {
                    0 => if hash2(self.sseed, k) % 3 == 0 { None } else { Some(cur) },
                    1 => if pos == 0 { up(&mut st, 0.25) } else if hash2(self.sseed, k) % 3 == 0 { None } else { Some(cur) },
                    2 => if pos < 2 { up(&mut st, 0.25) } else { Some(cur) },
                    _ => match hash2(self.sseed, k) % 5 {
                        0 => up(&mut st, 0.25),
                        1 => up(&mut st, 0.5),
                        2 => None,
                        3 => {
                            // worse by exactly 1/4: the Metropolis rule decides
                            let kt = s.spec_kt(lp);
                            let thr = self.thresholds.get((k - 1) as usize).copied().unwrap_or(0.5);
                            let new = cur - 0.25;
                            if kt > 0. && thr < f64::exp((new - cur) / kt) {
                                st.believed = new;
                            }
                            Some(new)
                        }
                        _ => Some(cur),
                    },
                }
            }
            Script::LnThr => {
                if k == 0 {
                    st.believed = 1.0;
                    return Some(1.0);
                }
                let inner = s.inner_eff().max(1);
                let lp = (k - 1) / inner;
                let kt = s.spec_kt(lp);
                let thr = self.thresholds.get((k - 1) as usize).copied().unwrap_or(0.5);
                let cur = st.believed;
                let mode = hash2(self.sseed, k) % 8;
                match mode {
                    0 => {
                        st.believed = cur + 0.01;
                        Some(st.believed)
                    }
                    1 => None,
                    2 => Some(cur), // equal: accepted, believed unchanged in value
                    3 => {
                        // worse by one of a few FIXED amounts: the same score difference recurs at every temperature
                        let d = [0.01, 0.02, 0.04][(hash2(self.sseed, 7 * k) % 3) as usize];
                        let new = cur - d;
                        if kt > 0. {
                            let p = f64::exp((new - cur) / kt);
                            if thr < p {
                                st.believed = new;
                            }
                        }
                        Some(new)
                    }
                    _ => {
                        if kt > 0. && thr > 0. {
                            // worse by d with exp(-d/kt) just above / just below the threshold
                            let accept_side = mode % 2 == 1;
                            let eps = [1e-6, 1e-4, 1e-2][(hash2(self.sseed, 3 * k) % 3) as usize];
                            let lnt = thr.ln(); // negative
                            let d = if accept_side {
                                -kt * lnt * (1. - eps)
                            } else {
                                -kt * lnt * (1. + eps)
                            };
                            let new = cur - d;
                            // the decision the Metropolis rule prescribes for (new, cur, kt, thr)
                            let p = f64::exp((new - cur) / kt);
                            if new < cur && thr < p {
                                st.believed = new;
                            } else if new >= cur {
                                st.believed = new;
                            }
                            Some(new)
                        } else {
                            // zero temperature: any strictly worse proposal must be rejected
                            let d = [1e-300, 1e-12, 1e-3, 0.5][(hash2(self.sseed, 5 * k) % 4) as usize];
                            let new = cur - d;
                            if new >= cur {
                                st.believed = new;
                            }
                            Some(new)
                        }
                    }
                }
            }
        }
    }
}

impl State for Scripted {
    fn score(&self) -> Option<f64> {
        let v: Vec<f64> = self.cells.iter().map(|c| c.get_value()).collect();
        let sc = self.script_score(&v);
        self.log.lock().unwrap().push(Call { score: sc, vec: v });
        sc
    }
    fn generate_basis(&self) -> Vec<StandardBasis> {
        self.handles
            .iter()
            .map(|&(c, lo, hi)| StandardBasis::new(&self.cells[c], lo, hi))
            .collect()
    }
    fn total_shapes(&self) -> usize {
        1
    }
    fn as_positions(&self) -> Result<String, anyhow::Error> {
        Ok(String::new())
    }
}

// ---------------------------------------------------------------------------------------
// Recorder around a real state

pub struct Recorder<S: State> {
    pub inner: S,
    pub log: Arc<Mutex<Vec<Call>>>,
}

impl<S: State> Clone for Recorder<S> {
    fn clone(&self) -> Self {
        Recorder {
            inner: self.inner.clone(),
            log: self.log.clone(),
        }
    }
}
impl<S: State> std::fmt::Debug for Recorder<S> {
    fn fmt(&self, f: &mut std::fmt::Formatter) -> std::fmt::Result {
        self.inner.fmt(f)
    }
}
impl<S: State> Serialize for Recorder<S> {
    fn serialize<Z: Serializer>(&self, s: Z) -> Result<Z::Ok, Z::Error> {
        self.inner.serialize(s)
    }
}
impl<S: State> PartialEq for Recorder<S> {
    fn eq(&self, o: &Self) -> bool {
        self.inner.eq(&o.inner)
    }
}
impl<S: State> Eq for Recorder<S> {}
impl<S: State> PartialOrd for Recorder<S> {
    fn partial_cmp(&self, o: &Self) -> Option<std::cmp::Ordering> {
        self.inner.partial_cmp(&o.inner)
    }
}
impl<S: State> Ord for Recorder<S> {
    fn cmp(&self, o: &Self) -> std::cmp::Ordering {
        self.inner.cmp(&o.inner)
    }
}
impl<S: State> ToSVG for Recorder<S> {
    type Value = svg::Document;
    fn as_svg(&self) -> Self::Value {
        self.inner.as_svg()
    }
}
impl<S: State> State for Recorder<S> {
    fn score(&self) -> Option<f64> {
        let v: Vec<f64> = self.inner.generate_basis().iter().map(|b| b.get_value()).collect();
        let sc = self.inner.score();
        self.log.lock().unwrap().push(Call { score: sc, vec: v });
        sc
    }
    fn generate_basis(&self) -> Vec<StandardBasis> {
        self.inner.generate_basis()
    }
    fn total_shapes(&self) -> usize {
        self.inner.total_shapes()
    }
    fn as_positions(&self) -> Result<String, anyhow::Error> {
        self.inner.as_positions()
    }
}

/// (value, min, max) of every basis handle of a state, by probing set_value(-inf/+inf).
pub fn probe_handles<S: State>(state: &S) -> Vec<(f64, f64, f64)> {
    let copy = state.clone();
    let mut basis = copy.generate_basis();
    let mut out = vec![];
    for b in basis.iter_mut() {
        let v = b.get_value();
        b.set_value(f64::NEG_INFINITY);
        let lo = b.get_value();
        b.set_value(f64::INFINITY);
        let hi = b.get_value();
        b.set_value(v);
        out.push((v, lo, hi));
    }
    out
}

// ---------------------------------------------------------------------------------------
// One recorded run

pub struct Run {
    pub spec: String,
    pub settings: Settings,
    pub init: Vec<f64>,                   // initial cells
    pub handles: Vec<(usize, f64, f64)>,  // (cell, min, max)
    pub draws: Vec<(usize, f64, f64)>,
    pub calls: Vec<Call>,
    pub final_vec: Option<Vec<f64>>,
    pub final_json: Option<String>,
    pub outcome: String,
}

/// reuse=1 (C09: "independent of which other replicas ... ran before"): the SAME optimiser object first
/// optimises an unrelated flat-landscape state (every loop of it counts as converged), then the recorded state
pub fn warm_up(opt: &packing::MCOptimiser, settings: &Settings) {
    let flat = Scripted {
        cells: vec![SharedValue::new(0.5), SharedValue::new(0.25)],
        handles: vec![(0, 0., 1.), (1, 0., 1.)],
        script: Script::Flat,
        sseed: 1,
        settings: settings.clone(),
        thresholds: Arc::new(vec![]),
        log: Arc::new(Mutex::new(vec![])),
        st: Arc::new(Mutex::new(ScriptState { believed: 0., calls: 0 })),
    };
    let _ = catch_unwind(AssertUnwindSafe(|| {
        let _ = opt.optimise_state(flat);
    }));
}

fn run_state<S: State>(
    state: S,
    settings: &Settings,
    log: Arc<Mutex<Vec<Call>>>,
    final_cells: impl Fn(&dyn Fn() -> Vec<f64>) -> Vec<f64>,
) -> (Option<Vec<f64>>, Option<String>, String) {
    let _ = &final_cells;
    let opt = settings.builder().build();
    if settings.reuse {
        warm_up(&opt, settings);
    }
    let res = catch_unwind(AssertUnwindSafe(move || {
        let out = opt.optimise_state(state);
        let v: Vec<f64> = out.generate_basis().iter().map(|b| b.get_value()).collect();
        let js = serde_json::to_string(&out).unwrap_or_default();
        (v, js)
    }));
    let _ = log;
    match res {
        Ok((v, js)) => (Some(v), Some(js), "ok".to_string()),
        Err(e) => {
            let msg = if let Some(s) = e.downcast_ref::<String>() {
                s.clone()
            } else if let Some(s) = e.downcast_ref::<&str>() {
                s.to_string()
            } else {
                "panic".to_string()
            };
            (None, None, format!("panic {}", msg.replace('\n', " ")))
        }
    }
}

/// a group whose last operation does not parse: building a site from it fails, and must leave nothing behind
/// for the next site built on this thread
pub fn failed_group_before() {
    let bad = packing::WallpaperGroup {
        name: "bad",
        family: packing::CrystalFamily::Monoclinic,
        wyckoff_str: vec!["x,y", "-x,-y", "-x+1/2,y", "x,q"],
    };
    let _ = packing::wallpaper::WyckoffSite::new(&bad);
}

pub fn group_of(name: &str) -> packing::WallpaperGroup<'static> {
    failed_group_before();
    get_wallpaper_group(WallpaperGroups::from_str(name).expect("group name")).expect("group")
}

pub fn run_scripted(spec: &Spec) -> Run {
    let settings = Settings::from_spec(spec);
    let n = spec.u_or("n", 6) as usize;
    let share = spec.u_or("share", 0) as usize; // extra handles aliasing existing cells
    let sseed = spec.u_or("sseed", 1);
    let script = match spec.get_or("script", "smooth") {
        "smooth" => Script::Smooth,
        "plateau" => Script::Plateau,
        "forced" => Script::Forced,
        "lnthr" => Script::LnThr,
        "quant" => Script::Quant,
        "weird" => Script::Weird,
        s => panic!("unknown script {}", s),
    };
    let mut g = Sm::new(sseed ^ 0xABCD);
    let mut cells = vec![];
    let mut handles = vec![];
    for i in 0..n {
        // ranges of different widths and positions; initial value inside
        let lo = g.range(-1., 0.5);
        let width = [0.01, 0.5, 1., 3.][(g.below(4)) as usize];
        let hi = lo + width;
        let v = match g.below(5) {
            0 => lo,
            1 => hi,
            _ => g.range(lo, hi),
        };
        // outside=1: some parameters start OUTSIDE their declared range (a state loaded from a file may)
        let v = if spec.u_or("outside", 0) == 1 {
            match g.below(4) {
                0 => hi + 0.3 * width + 0.125,
                1 => lo - 0.2 * width - 0.0625,
                _ => v,
            }
        } else {
            v
        };
        cells.push(SharedValue::new(v));
        // reversed=1: some declared ranges are EMPTY (min > max), as for a cell shorter than the 0.01 floor
        let (lo, hi) = if spec.u_or("reversed", 0) == 1 && g.below(3) == 0 { (hi, lo) } else { (lo, hi) };
        handles.push((i, lo, hi));
    }
    for _ in 0..share {
        let c = g.below(n as u64) as usize;
        let (_, lo, hi) = handles[c];
        // a second handle onto the same cell (same declared range)
        handles.push((c, lo, hi));
    }
    let init: Vec<f64> = cells.iter().map(|c| c.get_value()).collect();
    let draws = replay_draws(settings.seed, handles.len(), settings.steps + 4 * settings.inner.min(100_000) + 64);
    let thresholds = Arc::new(draws.iter().map(|d| d.2).collect::<Vec<f64>>());
    let log = Arc::new(Mutex::new(vec![]));
    let cells_probe: Vec<SharedValue> = vec![];
    let _ = cells_probe;
    let state = Scripted {
        cells,
        handles: handles.clone(),
        script,
        sseed,
        settings: settings.clone(),
        thresholds,
        log: log.clone(),
        st: Arc::new(Mutex::new(ScriptState { believed: 0., calls: 0 })),
    };
    // the cells of the returned state are read through the first n handles (1:1 with cells)
    let opt = settings.builder().build();
    if settings.reuse {
        warm_up(&opt, &settings);
    }
    let res = catch_unwind(AssertUnwindSafe(move || {
        let out = opt.optimise_state(state);
        let v: Vec<f64> = out.generate_basis().iter().take(n).map(|b| b.get_value()).collect();
        v
    }));
    let (final_vec, outcome) = match res {
        Ok(v) => (Some(v), "ok".to_string()),
        Err(e) => (None, format!("panic {}", panic_msg(e))),
    };
    let calls = log.lock().unwrap().clone();
    Run {
        spec: spec.text.clone(),
        settings,
        init,
        handles,
        draws,
        calls,
        final_vec,
        final_json: None,
        outcome,
    }
}

fn panic_msg(e: Box<dyn std::any::Any + Send>) -> String {
    let msg = if let Some(s) = e.downcast_ref::<String>() {
        s.clone()
    } else if let Some(s) = e.downcast_ref::<&str>() {
        s.to_string()
    } else {
        "panic".to_string()
    };
    msg.replace('\n', " ")
}

fn run_real_state<S: State>(spec: &Spec, state: S) -> Run {
    let settings = Settings::from_spec(spec);
    // optional unrecorded pre-optimisation with the crate's own optimiser (compresses the state)
    let pre = spec.u_or("pre", 0);
    let state = if pre > 0 {
        let mut b = BuildOptimiser::default();
        b.steps(pre).inner_steps(pre).kt_start(0.).kt_ratio(Some(0.)).max_step_size(0.05).seed(spec.u_or("preseed", 1));
        let o = b.build();
        let out = o.optimise_state(state.clone());
        // re-materialise as S through the basis values
        let vals: Vec<f64> = out.generate_basis().iter().map(|b| b.get_value()).collect();
        let s2 = state.clone();
        {
            let mut bs = s2.generate_basis();
            for (b, v) in bs.iter_mut().zip(vals.iter()) {
                b.set_value(*v);
            }
        }
        s2
    } else {
        state
    };
    let probed = probe_handles(&state);
    let init: Vec<f64> = probed.iter().map(|p| p.0).collect();
    let handles: Vec<(usize, f64, f64)> =
        probed.iter().enumerate().map(|(i, p)| (i, p.1, p.2)).collect();
    let draws = replay_draws(settings.seed, handles.len(), settings.steps + 4 * settings.inner.min(100_000) + 64);
    let log = Arc::new(Mutex::new(vec![]));
    let rec = Recorder { inner: state, log: log.clone() };
    let (final_vec, final_json, outcome) = run_state(rec, &settings, log.clone(), |f| f());
    let calls = log.lock().unwrap().clone();
    Run {
        spec: spec.text.clone(),
        settings,
        init,
        handles,
        draws,
        calls,
        final_vec,
        final_json,
        outcome,
    }
}

pub fn hard_shape_run<S: Shape + Intersect>(spec: &Spec, shape: S) -> Run {
    let g = group_of(spec.get("group"));
    let st = PackedState::from_group(shape, &g).expect("state");
    run_real_state(spec, st)
}
pub fn lj_shape_run<S: Shape + Potential>(spec: &Spec, shape: S) -> Run {
    let g = group_of(spec.get("group"));
    let st = PotentialState::from_group(shape, &g).expect("state");
    run_real_state(spec, st)
}

/// shape=polygon:5 | circle | trimer:0.637556:120:1
pub fn run_real(spec: &Spec) -> Run {
    let shape = spec.get("shape");
    let parts: Vec<&str> = shape.split(':').collect();
    let lj = spec.get_or("kind", "hard") == "lj";
    match (parts[0], lj) {
        ("polygon", false) => {
            hard_shape_run(spec, LineShape::polygon(parts[1].parse().unwrap()).expect("polygon"))
        }
        ("circle", false) => hard_shape_run(spec, MolecularShape2::circle()),
        ("trimer", false) => hard_shape_run(
            spec,
            MolecularShape2::from_trimer(parse_f(parts[1]), parse_f(parts[2]), parse_f(parts[3])),
        ),
        ("circle", true) => lj_shape_run(spec, LJShape2::circle()),
        ("trimer", true) => lj_shape_run(
            spec,
            LJShape2::from_trimer(parse_f(parts[1]), parse_f(parts[2]), parse_f(parts[3])),
        ),
        _ => panic!("unsupported shape/kind {}", spec.text),
    }
}

pub fn run_case(spec: &Spec) -> Run {
    match spec.get_or("state", "scripted") {
        "scripted" => run_scripted(spec),
        "real" => run_real(spec),
        s => panic!("unknown state kind {}", s),
    }
}

pub fn write_case(run: &Run, out: &mut dyn std::io::Write) {
    let s = &run.settings;
    writeln!(out, "K {}", run.spec).unwrap();
    writeln!(
        out,
        "B {} {} {} {} {} {} {}",
        s.steps,
        hex(s.kt_start),
        hexo(s.kt_finish),
        hexo(s.kt_ratio),
        hex(s.max_step),
        s.inner,
        hexo(s.conv)
    )
    .unwrap();
    let p: Vec<String> = run.init.iter().map(|x| hex(*x)).collect();
    writeln!(out, "P {}", p.join(" ")).unwrap();
    for (c, lo, hi) in run.handles.iter() {
        writeln!(out, "H {} {} {}", c, hex(*lo), hex(*hi)).unwrap();
    }
    for (i, g, t) in run.draws.iter() {
        writeln!(out, "D {} {} {}", i, hex(*g), hex(*t)).unwrap();
    }
    for c in run.calls.iter() {
        let v: Vec<String> = c.vec.iter().map(|x| hex(*x)).collect();
        writeln!(
            out,
            "C {} {}",
            c.score.map(hex).unwrap_or_else(|| "N".into()),
            v.join(" ")
        )
        .unwrap();
    }
    if let Some(f) = &run.final_vec {
        let v: Vec<String> = f.iter().map(|x| hex(*x)).collect();
        writeln!(out, "F {}", v.join(" ")).unwrap();
    }
    writeln!(out, "O {}", run.outcome).unwrap();
    writeln!(out, "E").unwrap();
}

// ---------------------------------------------------------------------------------------
// Monitors: the properties' own statements evaluated on the recorded history.

fn same(a: f64, b: f64) -> bool {
    a.to_bits() == b.to_bits() || (a.is_nan() && b.is_nan())
}
fn hamming(a: &[f64], b: &[f64]) -> usize {
    a.iter().zip(b.iter()).filter(|(x, y)| !same(**x, **y)).count() + if a.len() != b.len() { 99 } else { 0 }
}

struct Hist {
    step: u64,
    accepted: bool,
    // the observations do not determine this decision (two consistent histories merged here)
    ambiguous: std::cell::Cell<bool>,
    // ... and the two histories differ over more than this one step
    deep: std::cell::Cell<bool>,
    prev: Option<Rc<Hist>>,
}

/// Two histories reach the same held state: keep `keep`, and mark every step on which the two
/// may differ (back to their common ancestor) as not determined by the observations.
fn merge_mark(keep: &Option<Rc<Hist>>, other: &Option<Rc<Hist>>) -> bool {
    let (mut a, mut b) = (keep.clone(), other.clone());
    let mut walked = 0;
    loop {
        walked += 1;
        if walked > 300 {
            // too far apart to reconcile cheaply: the caller treats the run as inconclusive
            return false;
        }
        match (a.clone(), b.clone()) {
            (Some(x), Some(y)) => {
                if Rc::ptr_eq(&x, &y) {
                    return true;
                }
                x.ambiguous.set(true);
                if walked > 1 {
                    x.deep.set(true);
                    y.deep.set(true);
                }
                a = x.prev.clone();
                b = y.prev.clone();
            }
            _ => return true,
        }
    }
}

#[derive(Clone)]
struct Cand {
    cur: Vec<f64>,
    score: f64,
    hist: Option<Rc<Hist>>,
    /// the (step ratio, rejections of the current loop) pairs the histories merged into this candidate may have (only
    /// followed while the replayed random stream is in use; one constant pair otherwise)
    rr: Vec<(f64, u64)>,
}

/// StandardBasis::set_sampled as the source computes it: value + (step * (max - min)) * g, clamped by set_value
fn predicted_value(b: f64, lo: f64, hi: f64, step: f64, g: f64) -> f64 {
    let v = b + step * (hi - lo) * g;
    if v < lo {
        lo
    } else if v > hi {
        hi
    } else {
        v
    }
}

#[derive(Default)]
pub struct Stats {
    pub steps: u64,
    pub accepts: u64,
    pub rejects: u64,
    pub none_scores: u64,
    pub clamped: u64,
    pub boundary_decisions: u64,
    pub loops: u64,
    pub converged_early: bool,
    pub ambiguous_end: bool,
    /// the replayed random stream does not explain the observed proposals (the implementation consumes the generator
    /// differently): no monitor conclusion was drawn from it
    pub stream_desync: bool,
}

pub fn monitor(run: &Run) -> (Vec<Finding>, Stats) {
    let mut f: Vec<Finding> = vec![];
    let mut stats = Stats::default();
    let s = &run.settings;
    let mut add = |p: &'static str, w: String| {
        if f.len() < 20 {
            f.push(Finding { property: p, what: w })
        }
    };
    let inner = s.inner_eff();
    let loops = s.loops();
    let w_spec = loops * inner;
    stats.loops = loops;

    // C20: normal termination for non-negative settings on a valid input
    let input_valid = run.calls.first().map(|c| c.score.is_some()).unwrap_or(false);
    if run.outcome != "ok" {
        if input_valid && s.kt_start >= 0. {
            add("C08,C20", format!("optimise_state panicked: {}", run.outcome));
        }
        return (f, stats);
    }
    let ncalls = run.calls.len() as u64;
    if ncalls == 0 {
        return (f, stats);
    }
    // number of proposals evaluated: calls minus the initial one and (unless converged early) the final one
    let final_vec = run.final_vec.clone().unwrap_or_default();
    let steps_done;
    if s.conv.is_none() {
        if ncalls != w_spec + 2 {
            add(
                "C20",
                format!(
                    "{} score() calls, expected {} proposals + 2 (steps={} inner={})",
                    ncalls, w_spec, s.steps, s.inner
                ),
            );
        }
        steps_done = ncalls.saturating_sub(2);
    } else {
        // with convergence the run is a whole number of loops, either all of them (then + final call)
        if ncalls == w_spec + 2 {
            steps_done = w_spec;
        } else {
            steps_done = ncalls - 1;
            stats.converged_early = true;
            if inner == 0 || steps_done % inner != 0 || steps_done > w_spec || steps_done < 6 * inner {
                add(
                    "C20",
                    format!(
                        "converged run made {} proposals: not a whole number (>5) of inner loops of {} within {}",
                        steps_done, inner, w_spec
                    ),
                );
            }
        }
    }
    if steps_done > s.steps || (inner > 0 && s.conv.is_none() && steps_done + inner <= s.steps) {
        add("C20", format!("{} proposals for steps={} inner={}", steps_done, s.steps, s.inner));
    }
    stats.steps = steps_done;

    // handle lookup: which handles point to a cell
    let ncell = run.init.len();
    let mut cell_handles: Vec<Vec<usize>> = vec![vec![]; ncell];
    for (h, (c, _, _)) in run.handles.iter().enumerate() {
        cell_handles[*c].push(h);
    }

    let c0 = &run.calls[0];
    let s0 = match c0.score {
        Some(x) => x,
        None => return (f, stats),
    };
    if hamming(&c0.vec, &run.init) != 0 {
        add("C06", "the first score() call does not see the input state".into());
    }
    // The replayed random stream (which handle was drawn, which threshold) is used to tell apart histories the score()
    // calls alone leave open - as long as it explains the observations.  A proposal that changes a parameter other than
    // the drawn handle's from EVERY consistent held state shows that the implementation consumes the generator
    // differently from the replay (which the properties do not forbid; the correspondence run reports it): the
    // inference is then redone from the score() calls alone and nothing below is concluded from the replayed draws.
    let mut use_stream = true;
    // proposals whose direction and size the replayed sample explains (an over-count when several held states are open)
    let mut validated: u64;
    let mut cands: Vec<Cand>;
    let mut finals: Vec<Cand>;
    let mut truncated;
    let mut inconclusive;
    'infer: loop {
    cands = vec![Cand { cur: c0.vec.clone(), score: s0, hist: None, rr: vec![(1., 0)] }];
    truncated = false;
    inconclusive = false;
    validated = 0u64;
    for k in 1..=steps_done {
        let call = &run.calls[k as usize];
        if call.score.is_none() {
            stats.none_scores += 1;
        }
        let mut next: Vec<Cand> = vec![];
        // the cell of the handle the replayed random stream selected for this proposal
        let drawn_cell = run
            .draws
            .get((k - 1) as usize)
            .and_then(|d| run.handles.get(d.0))
            .map(|h| h.0);
        // the step ratio after this step along a history (the source's update at the end of each inner loop)
        let end_of_step = |ratio: f64, rej: u64, rejected: bool| -> (f64, u64) {
            if !use_stream {
                return (1., 0);
            }
            let rej = rej + if rejected { 1 } else { 0 };
            if inner > 0 && k % inner == 0 {
                let mut r = ratio;
                if r > 1e-4 {
                    r *= s.inner_eff() as f64 / (rej as f64 + 1.);
                    r = f64::min(r, 1.);
                }
                (r, 0)
            } else {
                (ratio, rej)
            }
        };
        let dedup_rr = |v: Vec<(f64, u64)>| -> Vec<(f64, u64)> {
            let mut out: Vec<(f64, u64)> = vec![];
            for x in v.into_iter() {
                if !out.iter().any(|y| same(y.0, x.0) && y.1 == x.1) {
                    out.push(x);
                }
            }
            out
        };
        let mut step_validated = false;
        for pass in 0..2 {
            if pass == 0 && !use_stream {
                continue;
            }
            for c in cands.iter() {
                let hd = hamming(&call.vec, &c.cur);
                if hd > 1 {
                    continue;
                }
                let mut rr = c.rr.clone();
                if pass == 0 {
                    // first pass: only held states from which the replayed draw gives EXACTLY this proposal (the drawn
                    // handle's parameter moved to clamp(value + (max_step * ratio * range) * g), bit for bit, the ratio
                    // being one this history can have led to)
                    match run.draws.get((k - 1) as usize) {
                        Some(d) if d.0 < run.handles.len() => {
                            let (hc, lo, hi) = run.handles[d.0];
                            rr.retain(|(ratio, _)| {
                                let mut pv = c.cur.clone();
                                if hc < pv.len() {
                                    pv[hc] = predicted_value(pv[hc], lo, hi, s.max_step * ratio, d.1);
                                }
                                hamming(&pv, &call.vec) == 0
                            });
                        }
                        _ => rr.clear(),
                    }
                    if rr.is_empty() {
                        continue;
                    }
                    step_validated = true;
                }
                // accepted branch
                if let Some(sc) = call.score {
                    next.push(Cand {
                        cur: call.vec.clone(),
                        score: sc,
                        hist: Some(Rc::new(Hist { step: k, accepted: true, ambiguous: std::cell::Cell::new(false), deep: std::cell::Cell::new(false), prev: c.hist.clone() })),
                        rr: dedup_rr(rr.iter().map(|&(r, j)| end_of_step(r, j, false)).collect()),
                    });
                }
                next.push(Cand {
                    cur: c.cur.clone(),
                    score: c.score,
                    hist: Some(Rc::new(Hist { step: k, accepted: false, ambiguous: std::cell::Cell::new(false), deep: std::cell::Cell::new(false), prev: c.hist.clone() })),
                    rr: dedup_rr(rr.iter().map(|&(r, j)| end_of_step(r, j, true)).collect()),
                });
            }
            if !next.is_empty() {
                if step_validated {
                    validated += 1;
                }
                if pass == 1 && use_stream {
                    if std::env::var("VH_DEBUG_DESYNC").is_ok() {
                        let d = run.draws[(k - 1) as usize];
                        eprintln!("DESYNC step {} inner {} draw {:?} handle {:?} call {:?}", k, inner, d, run.handles.get(d.0), call.vec);
                        for c in cands.iter() {
                            eprintln!("   cand cur {:?} score {:?} rr {:?}", c.cur, c.score, c.rr);
                        }
                    }
                    use_stream = false;
                    continue 'infer;
                }
                break;
            }
        }
        if next.is_empty() && use_stream {
            // the pruning by the replayed stream may have dropped the true history
            use_stream = false;
            continue 'infer;
        }
        if next.is_empty() {
            add(
                "C06",
                format!(
                    "proposal {} differs in more than one parameter from every state consistent with the history (neither the last proposal nor the state before it)",
                    k
                ),
            );
            return (f, stats);
        }
        // dedupe on (cur, score)
        let mut ded: Vec<Cand> = vec![];
        for c in next.into_iter() {
            match ded.iter_mut().find(|d| hamming(&d.cur, &c.cur) == 0 && same(d.score, c.score)) {
                Some(d) => {
                    if !merge_mark(&d.hist, &c.hist) {
                        inconclusive = true;
                    }
                    for x in c.rr.iter() {
                        if d.rr.len() < 4096 && !d.rr.iter().any(|y| same(y.0, x.0) && y.1 == x.1) {
                            d.rr.push(*x);
                        }
                    }
                }
                None => ded.push(c),
            }
        }
        if ded.len() > 24 {
            // too many held states are consistent with the observations (typically a single
            // parameter): the history cannot be inferred; only the model correspondence speaks
            truncated = true;
            let _ = truncated;
            stats.ambiguous_end = true;
            return (f, stats);
        }
        cands = ded;
    }
    // the end: the returned state, and the final assertion's call, must be the held state
    finals = cands
        .iter()
        .filter(|c| hamming(&c.cur, &final_vec) == 0)
        .cloned()
        .collect();
    if !stats.converged_early {
        let last = &run.calls[(ncalls - 1) as usize];
        finals.retain(|c| hamming(&c.cur, &last.vec) == 0);
    }
    if finals.is_empty() && use_stream {
        use_stream = false;
        continue 'infer;
    }
    break;
    }
    stats.stream_desync = !use_stream;
    // conclusions from the replayed thresholds need a stream that demonstrably explains the run
    let thresholds_known = use_stream && validated >= 6;
    if finals.is_empty() && truncated {
        stats.ambiguous_end = true;
        return (f, stats);
    }
    if finals.is_empty() {
        add(
            "C06",
            "the returned state is not the state of the last accepted proposal (nor the input)".into(),
        );
        return (f, stats);
    }
    stats.ambiguous_end = finals.len() > 1;

    // decision-based monitors, evaluated on every history consistent with the observations;
    // a violation is reported only if every consistent history exhibits one.
    let mut per_hist: Vec<Vec<Finding>> = vec![];
    for (ci, cand) in finals.iter().enumerate() {
        let mut v: Vec<Finding> = vec![];
        // unwind the history
        let mut dec: Vec<bool> = vec![false; steps_done as usize + 1];
        let mut ambig: Vec<bool> = vec![false; steps_done as usize + 1];
        let mut deep_ambig = false;
        let mut h = cand.hist.clone();
        while let Some(n) = h {
            dec[n.step as usize] = n.accepted;
            ambig[n.step as usize] = n.ambiguous.get();
            deep_ambig |= n.deep.get();
            h = n.prev.clone();
        }
        let mut cur = c0.vec.clone();
        let mut sc = s0;
        let mut sc_unsure = false;
        let mut sc_ever_unsure = false;
        let (mut acc, mut rej, mut clamped, mut boundary) = (0u64, 0u64, 0u64, 0u64);
        let mut loop_scores: Vec<f64> = vec![s0];
        for k in 1..=steps_done {
            let call = &run.calls[k as usize];
            let lp = (k - 1) / inner.max(1);
            let kt = s.spec_kt(lp);
            let thr = run.draws[(k - 1) as usize].2;
            // C19 / C08: the one changed parameter
            for (i, (a, b)) in call.vec.iter().zip(cur.iter()).enumerate() {
                if ambig[k as usize] {
                    break;
                }
                // range check (C08) for every handle on this cell
                for &h in cell_handles[i].iter() {
                    let (_, lo, hi) = run.handles[h];
                    let _ = (lo, hi);
                }
                if !same(*a, *b) && !use_stream {
                    // the handle is not known: the range of ANY handle on the changed cell may be the one in force
                    let ok_for = |&(_, lo, hi): &(usize, f64, f64)| {
                        let bound = s.max_step * (hi - lo) / 2.;
                        let step_ok = !(lo <= hi && *b >= lo && *b <= hi) || (a - b).abs() <= bound * (1. + 1e-9) + 1e-300 + 4. * f64::EPSILON * a.abs().max(b.abs());
                        let range_ok = !(lo <= hi) || !(a.is_nan() || *a < lo || *a > hi);
                        (step_ok, range_ok)
                    };
                    let hs: Vec<(bool, bool)> = cell_handles[i].iter().map(|&h| ok_for(&run.handles[h])).collect();
                    if !hs.is_empty() && hs.iter().all(|x| !x.0) {
                        v.push(Finding { property: "C19", what: format!("proposal {} (loop {}) moves parameter {} by {:e}, more than max_step_size*range/2 for every handle on it", k, lp + 1, i, (a - b).abs()) });
                    }
                    if !hs.is_empty() && hs.iter().all(|x| !x.1) {
                        v.push(Finding { property: "C08", what: format!("proposal {} sets parameter {} to {:?} outside the range of every handle on it", k, i, a) });
                    }
                    if hs.is_empty() {
                        v.push(Finding { property: "C06,C08", what: format!("proposal {} changed parameter {}, which no handle points to", k, i) });
                    }
                } else if !same(*a, *b) {
                    let hidx = run.draws[(k - 1) as usize].0;
                    let (hc, lo, hi) = run.handles[hidx.min(run.handles.len() - 1)];
                    if hc != i {
                        v.push(Finding {
                            property: "C06",
                            what: format!("proposal {} changed parameter {} but handle {} (parameter {}) was drawn", k, i, hidx, hc),
                        });
                    }
                    let bound = s.max_step * (hi - lo) / 2.;
                    // (an empty declared range, min > max, has no meaningful step bound or membership)
                    // (the bound is for a parameter INSIDE its range - the premise of R_C19_every_move_bounded; a state read
                    //  from a file may start outside, and its first move on that parameter is the clamp into the range)
                    if lo <= hi && *b >= lo && *b <= hi && !((a - b).abs() <= bound * (1. + 1e-9) + 1e-300 + 4. * f64::EPSILON * a.abs().max(b.abs())) {
                        v.push(Finding {
                            property: "C19",
                            what: format!(
                                "proposal {} (loop {}) moves parameter {} by {:e}, more than max_step_size*range/2 = {:e}",
                                k, lp + 1, i, (a - b).abs(), bound
                            ),
                        });
                    }
                    if lo <= hi && (a.is_nan() || *a < lo || *a > hi) {
                        v.push(Finding {
                            property: "C08",
                            what: format!("proposal {} sets parameter {} to {:?} outside [{:?}, {:?}]", k, i, a, lo, hi),
                        });
                    }
                    if same(*a, lo) || same(*a, hi) {
                        clamped += 1;
                    }
                }
            }
            let accepted = dec[k as usize];
            // a proposal identical to the held state, or a step the observations do not
            // determine, says nothing about the decision
            let undetermined = ambig[k as usize] || hamming(&call.vec, &cur) == 0;
            // an undetermined step whose proposal scored differently from the held score (a scripted score need not be a
            // function of the state): the held score is then one of two values, and nothing that compares with it is
            // concluded until a determined acceptance fixes it again
            if undetermined {
                match call.score {
                    Some(x) if !(x == sc) => sc_unsure = true,
                    _ => {}
                }
            }
            match call.score {
                _ if undetermined || sc_unsure => {
                    if let (false, None, true) = (undetermined, call.score, accepted) {
                        v.push(Finding { property: "C07,C08", what: format!("proposal {} has no defined score but was accepted", k) });
                    }
                }
                None => {
                    if accepted {
                        v.push(Finding { property: "C07,C08", what: format!("proposal {} has no defined score but was accepted", k) });
                    }
                }
                Some(new) => {
                    if new.is_nan() {
                        if accepted {
                            v.push(Finding { property: "C07,C08", what: format!("proposal {} scored NaN and was accepted", k) });
                        }
                    } else if new > sc {
                        if !accepted {
                            v.push(Finding { property: "C07", what: format!("proposal {} is better ({:?} > {:?}) but was rejected", k, new, sc) });
                        }
                    } else if new == sc {
                        if !accepted && kt >= 0. && (thr < 1. || !use_stream) {
                            v.push(Finding { property: "C07", what: format!("proposal {} has an equal score but was rejected", k) });
                        }
                    } else if kt == 0. && kt.is_sign_positive() {
                        // (a NEGATIVE temperature - also the -0.0 a negative kt_start cools to - is outside the
                        // domain of the Metropolis rule; only undefined scores are still required to be rejected)
                        if accepted {
                            let p = if s.kt_start == 0. { "C05" } else { "C07" };
                            v.push(Finding {
                                property: p,
                                what: format!("proposal {} (loop {}) is worse ({:?} < {:?}) and was accepted at zero temperature", k, lp + 1, new, sc),
                            });
                        }
                    } else if kt > 0. && thresholds_known {
                        let p = f64::exp((new - sc) / kt);
                        let band = 1e-9;
                        if (thr - p).abs() <= 1e-4 * p {
                            boundary += 1;
                        }
                        if accepted && thr > p * (1. + band) + 1e-300 {
                            v.push(Finding {
                                property: "C07,C18",
                                what: format!(
                                    "proposal {} (loop {}) worse by {:e} accepted with draw {:?} >= exp(-d/kT) = {:?} at the scheduled kT = {:?}",
                                    k, lp + 1, sc - new, thr, p, kt
                                ),
                            });
                        }
                        if !accepted && thr < p * (1. - band) {
                            v.push(Finding {
                                property: "C07,C18",
                                what: format!(
                                    "proposal {} (loop {}) worse by {:e} rejected with draw {:?} < exp(-d/kT) = {:?} at the scheduled kT = {:?}",
                                    k, lp + 1, sc - new, thr, p, kt
                                ),
                            });
                        }
                    }
                }
            }
            if accepted {
                acc += 1;
                cur = call.vec.clone();
                if let (Some(x), false) = (call.score, undetermined) {
                    sc = x;
                    sc_unsure = false;
                }
            } else {
                rej += 1;
            }
            sc_ever_unsure |= sc_unsure;
            if inner > 0 && k % inner == 0 {
                loop_scores.push(sc);
            }
        }
        let deep_ambig = deep_ambig || sc_ever_unsure;
        if s.kt_start == 0. && sc < s0 && !sc_unsure {
            v.push(Finding { property: "C05", what: format!("final score {:?} below the input score {:?} at kt_start = 0", sc, s0) });
        }
        // C05 on the RETURNED state itself (not the scores the optimiser believes it holds): for the scripts that are
        // pure functions of the parameters, re-score the returned parameters and compare with the input's score
        {
            let spec = Spec::parse(&run.spec);
            let pure = match spec.get_or("script", "") { "smooth" => Some(false), "plateau" => Some(true), _ => None };
            if let (Some(quant), Some(fv), true) = (pure, run.final_vec.as_ref(), s.kt_start == 0.) {
                let sseed = spec.u_or("sseed", 1);
                let val = |v: &[f64]| smooth_value(sseed, v).map(|x| if quant { (x * 40.).floor() / 40. } else { x });
                let n = run.init.len().min(fv.len());
                match (val(&run.init[..n]), val(&fv[..n])) {
                    (Some(a), Some(b)) if b < a => v.push(Finding {
                        property: "C05",
                        what: format!("the returned state scores {:?}, the input scored {:?} (kt_start = 0)", b, a),
                    }),
                    (Some(a), None) => v.push(Finding {
                        property: "C05,C08",
                        what: format!("the returned state has no score, the input scored {:?}", a),
                    }),
                    _ => {}
                }
            }
        }
        // C20: with a convergence threshold the run stops exactly after the first loop that makes
        // more than five consecutive loops each improving by less than the threshold
        if let (Some(eps), true) = (s.conv, inner > 0) {
            let mut count = 0u64;
            let mut expected_stop: Option<u64> = None;
            let loops_run = steps_done / inner;
            for l in 0..loops_run {
                let (a, b) = (loop_scores[l as usize], loop_scores[l as usize + 1]);
                if b - a < eps {
                    count += 1;
                    if count > 5 {
                        expected_stop = Some(l + 1);
                        break;
                    }
                } else {
                    count = 0;
                }
            }
            // a single undetermined step (a proposal equal to the held state) leaves state and score
            // the same either way; histories that differ over several steps may differ in the score
            // at a loop boundary, and then nothing is concluded
            if !deep_ambig {
                match (expected_stop, stats.converged_early) {
                    (Some(l), _) if l < loops_run => v.push(Finding {
                        property: "C20",
                        what: format!("convergence (threshold {:?}) was reached after loop {} but the run went on to loop {}", eps, l, loops_run),
                    }),
                    (None, true) => v.push(Finding {
                        property: "C20",
                        what: format!(
                            "the run stopped early after {} of {} loops although it never had more than five consecutive loops improving by less than the threshold {:?}",
                            loops_run, loops, eps
                        ),
                    }),
                    (Some(l), false) if l == loops_run && loops_run < loops => v.push(Finding {
                        property: "C20",
                        what: format!("inconsistent early stop at loop {}", l),
                    }),
                    _ => {}
                }
            }
        }
        if ci == 0 {
            stats.accepts = acc;
            stats.rejects = rej;
            stats.clamped = clamped;
            stats.boundary_decisions = boundary;
        }
        per_hist.push(v);
    }
    if inconclusive {
        stats.ambiguous_end = true;
    } else if per_hist.iter().all(|v| !v.is_empty()) {
        // report the findings of the history with the fewest
        let best = per_hist.into_iter().min_by_key(|v| v.len()).unwrap();
        for x in best.into_iter().take(6) {
            f.push(x);
        }
    }
    (f, stats)
}
