// geom.rs - the `geom` engine: builds hard / Lennard-Jones states with arbitrary parameters through
// the crate's public Deserialize, records what the implementation computes (placements, images,
// scores, pair predicates) for the extracted Coq model to be compared with, and evaluates the
// direct monitors of C01 C02 C03 C04 C12 C13 C14 C15 with oracles that do not use the code under test.
//
// Case file (read by ocaml/engine_geom.ml):
//   K <spec>
//   Y <n>                    S <9 hex, row-major>            one per symmetry operation
//   T <x> <y> <cos> <sin>    site                            L <len> <ratio> <cos> <sin>   cell
//   P <n> / M <n> / J <n>    shape kind and item count       I <fields>                    one per item
//   Q <radius> <area>
//   r <9 hex>..  relative positions   c <9 hex>.. cartesian positions
//   g <idx> <k> <zero> <count> then `i <9 hex>` lines         s <hex|N> score     a <cell area>
//   X <9 hex> <9 hex> <ab> <ba> <sep>   (pair cases: two transforms, both answers, oracle separation)
//   E
use std::f64::consts::PI;
use std::io::Write;
use std::panic::{catch_unwind, AssertUnwindSafe};

use serde_json::{json, Value};

use packing::traits::{Basis, Intersect, Potential, Shape, State};
use packing::{LJShape2, LineShape, MolecularShape2, PackedState, PotentialState, Transform2};

use crate::common::*;
use crate::opt::group_of;

pub type M9 = [f64; 9];

pub fn mat(t: &Transform2) -> M9 {
    let m: nalgebra::Matrix3<f64> = (*t).into();
    [m[(0, 0)], m[(0, 1)], m[(0, 2)], m[(1, 0)], m[(1, 1)], m[(1, 2)], m[(2, 0)], m[(2, 1)], m[(2, 2)]]
}
fn tf_of(m: &M9) -> Transform2 {
    Transform2::from(nalgebra::Matrix3::new(m[0], m[1], m[2], m[3], m[4], m[5], m[6], m[7], m[8]))
}
fn hex9(m: &M9) -> String {
    m.iter().map(|x| hex(*x)).collect::<Vec<_>>().join(" ")
}
fn apply(m: &M9, p: (f64, f64)) -> (f64, f64) {
    (m[0] * p.0 + m[1] * p.1 + m[2], m[3] * p.0 + m[4] * p.1 + m[5])
}

pub enum St {
    Poly(PackedState<LineShape>),
    Mol(PackedState<MolecularShape2>),
    Lj(PotentialState<LJShape2>),
}

#[derive(Clone, Debug)]
pub enum Items {
    Segs(Vec<[f64; 4]>),
    Discs(Vec<[f64; 3]>),
    Ljs(Vec<(f64, f64, f64, f64, Option<f64>)>),
}

macro_rules! each {
    ($self:expr, $s:ident => $e:expr) => {
        match $self {
            St::Poly($s) => $e,
            St::Mol($s) => $e,
            St::Lj($s) => $e,
        }
    };
}

impl St {
    pub fn rel(&self) -> Vec<M9> {
        each!(self, s => s.relative_positions().map(|t| mat(&t)).collect())
    }
    pub fn cart(&self) -> Vec<M9> {
        each!(self, s => s.cartesian_positions().map(|t| mat(&t)).collect())
    }
    pub fn images(&self, idx: usize, k: i64, zero: bool) -> Vec<M9> {
        each!(self, s => {
            let pos: Vec<Transform2> = s.relative_positions().collect();
            s.cell.periodic_images(pos[idx], k, zero).map(|t| mat(&t)).collect()
        })
    }
    pub fn score(&self) -> Option<f64> {
        each!(self, s => s.score())
    }
    pub fn cell(&self) -> (f64, f64, f64, f64) {
        each!(self, s => (s.cell.a(), s.cell.b(), s.cell.angle(), s.cell.area()))
    }
    pub fn to_cart(&self, x: f64, y: f64) -> (f64, f64) {
        each!(self, s => s.cell.to_cartesian(x, y))
    }
    pub fn corners_center(&self) -> (Vec<(f64, f64)>, (f64, f64)) {
        each!(self, s => (s.cell.get_corners().iter().map(|p| (p.x, p.y)).collect(), { let c = s.cell.center(); (c.x, c.y) }))
    }
    /// serialise, read back, and report (text, score of the copy, placements of the copy, re-serialisation)
    pub fn roundtrip(&self) -> Result<(String, Option<f64>, Vec<M9>, String), String> {
        macro_rules! rt {
            ($s:expr, $t:ty) => {{
                let text = serde_json::to_string($s).map_err(|e| format!("to_string: {}", e))?;
                let back: $t = serde_json::from_str(&text).map_err(|e| format!("from_str: {}", e))?;
                let sc = back.score();
                let pos: Vec<M9> = back.cartesian_positions().map(|t| mat(&t)).collect();
                let again = serde_json::to_string(&back).map_err(|e| format!("to_string: {}", e))?;
                Ok((text, sc, pos, again))
            }};
        }
        match self {
            St::Poly(s) => rt!(s, PackedState<LineShape>),
            St::Mol(s) => rt!(s, PackedState<MolecularShape2>),
            St::Lj(s) => rt!(s, PotentialState<LJShape2>),
        }
    }
    /// score a clone, replace its (public) shape field, score again - and score a state rebuilt from the
    /// mutated clone's own JSON ON A FRESH THREAD: the score must be a function of what the state IS, not of its
    /// history nor of what the thread did before
    pub fn reshape_then_score(&self) -> Option<(Option<f64>, Option<f64>)> {
        match self {
            St::Poly(s) => {
                let mut c = s.clone();
                let _ = c.score();
                // same name, same number of sides, half the size (a memo keyed on less than the geometry shows here)
                c.shape = LineShape::from_radial(&c.shape.name.clone(), vec![0.5; c.shape.items.len()]).ok()?;
                let a = c.score();
                let fresh: PackedState<LineShape> = serde_json::from_value(serde_json::to_value(&c).ok()?).ok()?;
                Some((a, std::thread::spawn(move || fresh.score()).join().ok()?))
            }
            St::Mol(s) => {
                let mut c = s.clone();
                let _ = c.score();
                c.shape = if c.shape.items.len() == 1 { MolecularShape2::from_trimer(0.637556, 120., 1.) } else { MolecularShape2::from_trimer(0.45, 100., 1.15) };
                let a = c.score();
                let fresh: PackedState<MolecularShape2> = serde_json::from_value(serde_json::to_value(&c).ok()?).ok()?;
                Some((a, std::thread::spawn(move || fresh.score()).join().ok()?))
            }
            St::Lj(s) => {
                let mut c = s.clone();
                let _ = c.score();
                c.shape = if c.shape.items.len() == 1 { LJShape2::from_trimer(0.637556, 120., 1.) } else { LJShape2::from_trimer(0.45, 100., 1.15) };
                let a = c.score();
                let fresh: PotentialState<LJShape2> = serde_json::from_value(serde_json::to_value(&c).ok()?).ok()?;
                Some((a, std::thread::spawn(move || fresh.score()).join().ok()?))
            }
        }
    }
    /// C01 / C02 / C09: a state that was scored where it was built and then MOVED through its own handles (as the
    /// optimiser moves it) to the parameters of `self` scores as `self` read from its own JSON does: what a state remembers
    /// from an earlier score may not outlive a move.  None when the move cannot reach `self` exactly (a clamp intervened).
    pub fn moved_then_score(&self, start: &St) -> Option<(Option<f64>, Option<f64>)> {
        fn go<S: State + serde::Serialize + serde::de::DeserializeOwned + Send + 'static>(target: &S, start: &S) -> Option<(Option<f64>, Option<f64>)> {
            let st = start.clone();
            let _ = st.score();
            {
                let want: Vec<f64> = target.generate_basis().iter().map(|h| h.get_value()).collect();
                let mut basis = st.generate_basis();
                if basis.len() != want.len() {
                    return None;
                }
                for (h, v) in basis.iter_mut().zip(want.iter()) {
                    h.set_value(*v);
                }
            }
            let (a, b) = (serde_json::to_value(&st).ok()?, serde_json::to_value(target).ok()?);
            if a != b {
                return None;
            }
            let moved = st.score();
            let fresh: S = serde_json::from_value(b).ok()?;
            Some((moved, std::thread::spawn(move || fresh.score()).join().ok()?))
        }
        match (self, start) {
            (St::Poly(t), St::Poly(s)) => go(t, s),
            (St::Mol(t), St::Mol(s)) => go(t, s),
            (St::Lj(t), St::Lj(s)) => go(t, s),
            _ => None,
        }
    }
    pub fn svg(&self) -> String {
        use packing::traits::ToSVG;
        each!(self, s => format!("{}", s.as_svg()))
    }
    pub fn json(&self) -> Value {
        each!(self, s => serde_json::to_value(s).unwrap())
    }
    pub fn total(&self) -> usize {
        each!(self, s => s.total_shapes())
    }
    pub fn items(&self) -> Items {
        match self {
            St::Poly(s) => Items::Segs(s.shape.items.iter().map(|l| [l.start.x, l.start.y, l.end.x, l.end.y]).collect()),
            St::Mol(s) => Items::Discs(s.shape.items.iter().map(|a| [a.position.x, a.position.y, a.radius]).collect()),
            St::Lj(s) => Items::Ljs(s.shape.items.iter().map(|a| (a.position.x, a.position.y, a.sigma, a.epsilon, a.cutoff)).collect()),
        }
    }
    pub fn radius_area(&self) -> (f64, f64) {
        match self {
            St::Poly(s) => (s.shape.enclosing_radius(), s.shape.area()),
            St::Mol(s) => (s.shape.enclosing_radius(), s.shape.area()),
            St::Lj(s) => (s.shape.enclosing_radius(), 0.),
        }
    }
    /// the implementation's pair predicate on two placements of the state's shape
    pub fn impl_intersects(&self, a: &M9, b: &M9) -> Option<bool> {
        match self {
            St::Poly(s) => Some(s.shape.transform(&tf_of(a)).intersects(&s.shape.transform(&tf_of(b)))),
            St::Mol(s) => Some(s.shape.transform(&tf_of(a)).intersects(&s.shape.transform(&tf_of(b)))),
            St::Lj(_) => None,
        }
    }
    pub fn impl_energy(&self, a: &M9, b: &M9) -> Option<f64> {
        match self {
            St::Lj(s) => Some(s.shape.transform(&tf_of(a)).energy(&s.shape.transform(&tf_of(b)))),
            _ => None,
        }
    }
}

pub struct Params {
    pub second: Option<(f64, f64, f64)>,
    pub third: Option<(f64, f64, f64)>,
    pub len: f64,
    pub ratio: f64,
    pub angle: f64,
    pub x: f64,
    pub y: f64,
    pub phi: f64,
}

/// opt=<steps>:<seed>[:<kt_start>[:<chain>]] - optimise a CLONE of the state with the crate's own optimiser
/// (as the command line does for every replica), `chain` stages in a row, and hand back the result
fn optimised<S: State + serde::de::DeserializeOwned>(st: S, spec: &Spec) -> S {
    let o = match spec.kv.get("opt") {
        Some(o) => o.clone(),
        None => return st,
    };
    let v: Vec<f64> = o.split(':').map(parse_f).collect();
    let steps = v[0] as u64;
    let seed = v.get(1).cloned().unwrap_or(0.) as u64;
    let kt = v.get(2).cloned().unwrap_or(0.1);
    let chain = v.get(3).cloned().unwrap_or(1.) as u64;
    let mut cur = st;
    for stage in 0..chain.max(1) {
        let mut b = packing::BuildOptimiser::default();
        b.steps(steps).inner_steps((steps / 4).max(1)).kt_start(kt).kt_ratio(Some(0.5)).max_step_size(0.2).seed(seed + stage);
        // a stage that starts from a valid state must return, and what it returns must be a state a file can hold
        let valid = cur.score().map(|x| x.is_finite()).unwrap_or(false);
        let start = cur.clone();
        let res = catch_unwind(AssertUnwindSafe(move || {
            let out = b.build().optimise_state(start);
            serde_json::to_value(&out).unwrap()
        }));
        let v = match res {
            Ok(v) => v,
            Err(e) => {
                if valid {
                    let msg = e.downcast_ref::<String>().cloned().or_else(|| e.downcast_ref::<&str>().map(|s| s.to_string())).unwrap_or_default();
                    BUILD_NOTES.with(|n| n.borrow_mut().push(format!(
                        "stage {} of an optimisation chain that started from a valid state panicked: {}", stage + 1, msg.chars().take(200).collect::<String>())));
                }
                panic!("optimisation stage panicked");
            }
        };
        cur = match serde_json::from_value(v.clone()) {
            Ok(c) => c,
            Err(e) => {
                if valid {
                    BUILD_NOTES.with(|n| n.borrow_mut().push(format!(
                        "the state returned by stage {} of a chain that started from a valid state cannot be read back from its own JSON ({}): site {}", stage + 1, e, v["occupied_sites"][0])));
                }
                panic!("optimised state from JSON");
            }
        };
    }
    cur
}

thread_local! {
    /// what went wrong while a case's state was being built (drained by run_state_case)
    static BUILD_NOTES: std::cell::RefCell<Vec<String>> = std::cell::RefCell::new(vec![]);
}

/// cuts= / epss= / sigs= : per-particle overrides of a Lennard-Jones molecule (values separated by ':', '-' = no
/// cutoff / unchanged) - molecules of unlike particles that only the library API or a file can describe
fn lj_overrides(v: &mut Value, spec: &Spec) {
    for (key, field) in [("cuts", "cutoff"), ("epss", "epsilon"), ("sigs", "sigma")].iter() {
        if let Some(list) = spec.kv.get(*key) {
            for (i, t) in list.split(':').enumerate() {
                if v["shape"]["items"].get(i).is_none() {
                    break;
                }
                if *field == "cutoff" {
                    v["shape"]["items"][i][*field] = if t == "-" { Value::Null } else { json!(parse_f(t)) };
                } else if t != "-" {
                    v["shape"]["items"][i][*field] = json!(parse_f(t));
                }
            }
        }
    }
}

fn inject<S: serde::Serialize + serde::de::DeserializeOwned>(st: &S, p: &Option<Params>) -> S {
    let mut v = serde_json::to_value(st).unwrap();
    if let Some(p) = p {
        v["cell"]["length"] = json!(p.len);
        v["cell"]["ratio"] = json!(p.ratio);
        v["cell"]["angle"] = json!(p.angle);
        v["occupied_sites"][0]["x"] = json!(p.x);
        v["occupied_sites"][0]["y"] = json!(p.y);
        v["occupied_sites"][0]["angle"] = json!(p.phi);
        if let Some((x2, y2, p2)) = p.second {
            // a second occupied site of the same Wyckoff position (the library supports several sites)
            let mut s2 = v["occupied_sites"][0].clone();
            s2["x"] = json!(x2);
            s2["y"] = json!(y2);
            s2["angle"] = json!(p2);
            v["occupied_sites"].as_array_mut().unwrap().push(s2);
        }
        if let Some((x3, y3, p3)) = p.third {
            let mut s3 = v["occupied_sites"][0].clone();
            s3["x"] = json!(x3);
            s3["y"] = json!(y3);
            s3["angle"] = json!(p3);
            v["occupied_sites"].as_array_mut().unwrap().push(s3);
        }
    }
    serde_json::from_value(v).expect("state from JSON")
}

/// family=Hexagonal|Tetragonal|Orthorhombic|Monoclinic : the crystal family of the cell as a file may state it
fn with_family<S: serde::Serialize + serde::de::DeserializeOwned>(st: S, spec: &Spec) -> S {
    // rots=N : the (unused) rotation count of every site as a file may state it
    let st = match spec.kv.get("rots") {
        None => st,
        Some(n) => {
            let mut v = serde_json::to_value(&st).unwrap();
            if let Some(sites) = v["occupied_sites"].as_array_mut() {
                for s in sites.iter_mut() {
                    s["wyckoff"]["num_rotations"] = json!(n.parse::<u64>().unwrap_or(1));
                }
            }
            serde_json::from_value(v).expect("state with another rotation count")
        }
    };
    match spec.kv.get("family") {
        None => st,
        Some(f) => {
            let mut v = serde_json::to_value(&st).unwrap();
            v["cell"]["family"] = json!(f);
            serde_json::from_value(v).expect("state with another crystal family")
        }
    }
}

fn lj_inject(st: &PotentialState<LJShape2>, spec: &Spec) -> PotentialState<LJShape2> {
    if !(spec.kv.contains_key("cuts") || spec.kv.contains_key("epss") || spec.kv.contains_key("sigs")) {
        return st.clone();
    }
    let mut v = serde_json::to_value(st).unwrap();
    lj_overrides(&mut v, spec);
    serde_json::from_value(v).expect("LJ state with overridden particles")
}

/// shape=polygon:5 | radial:1:0.9:1:0.95 | circle | trimer:r:angle:d
pub fn build(spec: &Spec) -> St {
    // prev=<group>: a state of ANOTHER group with the same parameters was built and queried on this thread just before
    // (what a site yields may not depend on what was asked of another site before)
    if let Some(pg) = spec.kv.get("prev") {
        let mut s2 = spec.clone();
        s2.kv.insert("group".into(), pg.clone());
        s2.kv.remove("prev");
        s2.kv.remove("opt");
        if let Ok(st) = catch_unwind(AssertUnwindSafe(|| build(&s2))) {
            let _ = (st.rel(), st.cart(), st.score());
        }
    }
    let g = group_of(spec.get("group"));
    let shape = spec.get("shape");
    let parts: Vec<&str> = shape.split(':').collect();
    let lj = spec.get_or("kind", "hard") == "lj";
    let p = if spec.kv.contains_key("len") {
        Some(Params { second: if spec.kv.contains_key("x2") { Some((spec.f("x2"), spec.f("y2"), spec.f("phi2"))) } else { None },
                      third: if spec.kv.contains_key("x3") { Some((spec.f("x3"), spec.f("y3"), spec.f("phi3"))) } else { None }, len: spec.f("len"), ratio: spec.f("ratio"), angle: spec.f("angle"), x: spec.f("x"), y: spec.f("y"), phi: spec.f("phi") })
    } else {
        None
    };
    match (parts[0], lj) {
        ("polygon", false) => {
            let sh = LineShape::polygon(parts[1].parse().unwrap()).expect("polygon");
            St::Poly(optimised(with_family(inject(&PackedState::from_group(sh, &g).unwrap(), &p), spec), spec))
        }
        ("radial", false) => {
            let r: Vec<f64> = parts[1..].iter().map(|s| parse_f(s)).collect();
            let sh = LineShape::from_radial("Radial", r).expect("radial");
            St::Poly(optimised(with_family(inject(&PackedState::from_group(sh, &g).unwrap(), &p), spec), spec))
        }
        ("circle", false) => St::Mol(optimised(with_family(inject(&PackedState::from_group(MolecularShape2::circle(), &g).unwrap(), &p), spec), spec)),
        ("trimer", false) => {
            let sh = MolecularShape2::from_trimer(parse_f(parts[1]), parse_f(parts[2]), parse_f(parts[3]));
            St::Mol(optimised(with_family(inject(&PackedState::from_group(sh, &g).unwrap(), &p), spec), spec))
        }
        ("circle", true) => St::Lj(optimised(with_family(lj_inject(&inject(&PotentialState::from_group(LJShape2::circle(), &g).unwrap(), &p), spec), spec), spec)),
        ("trimer", true) => {
            let sh = LJShape2::from_trimer(parse_f(parts[1]), parse_f(parts[2]), parse_f(parts[3]));
            St::Lj(optimised(with_family(lj_inject(&inject(&PotentialState::from_group(sh, &g).unwrap(), &p), spec), spec), spec))
        }
        _ => panic!("unsupported shape/kind {}", spec.text),
    }
}

// ---------------------------------------------------------------------------------------
// independent oracles

/// International Tables A, plane groups 1,2,3,4,6,7,8 (typed in; not derived from the crate)
pub fn ita(group: &str) -> Vec<([f64; 4], [f64; 2])> {
    let e = ([1., 0., 0., 1.], [0., 0.]);
    let r2 = ([-1., 0., 0., -1.], [0., 0.]);
    match group {
        "p1" => vec![e],
        "p2" => vec![e, r2],
        "p1m1" => vec![e, ([-1., 0., 0., 1.], [0., 0.])],
        "p1g1" => vec![e, ([-1., 0., 0., 1.], [0., 0.5])],
        "p2mm" => vec![e, r2, ([-1., 0., 0., 1.], [0., 0.]), ([1., 0., 0., -1.], [0., 0.])],
        "p2mg" => vec![e, r2, ([-1., 0., 0., 1.], [0.5, 0.]), ([1., 0., 0., -1.], [0.5, 0.])],
        "p2gg" => vec![e, r2, ([-1., 0., 0., 1.], [0.5, 0.5]), ([1., 0., 0., -1.], [0.5, 0.5])],
        _ => panic!("group"),
    }
}

/// vertices of a placed polygon (start points of its segments) computed with plain arithmetic
fn poly_vertices(items: &[[f64; 4]], m: &M9) -> Vec<(f64, f64)> {
    items.iter().map(|s| apply(m, (s[0], s[1]))).collect()
}

/// signed separation of two convex polygons by the separating-axis theorem:
/// > 0: disjoint, at least this far apart along some axis;  < 0: interiors overlap, penetration depth -sep
pub fn sat_separation(a: &[(f64, f64)], b: &[(f64, f64)]) -> f64 {
    let mut best = f64::NEG_INFINITY;
    for poly in [a, b].iter() {
        let n = poly.len();
        for i in 0..n {
            let (x1, y1) = poly[i];
            let (x2, y2) = poly[(i + 1) % n];
            let (ex, ey) = (x2 - x1, y2 - y1);
            let l = (ex * ex + ey * ey).sqrt();
            if l == 0. {
                continue;
            }
            let (nx, ny) = (ey / l, -ex / l);
            let pa: Vec<f64> = a.iter().map(|p| p.0 * nx + p.1 * ny).collect();
            let pb: Vec<f64> = b.iter().map(|p| p.0 * nx + p.1 * ny).collect();
            let (mina, maxa) = (pa.iter().cloned().fold(f64::INFINITY, f64::min), pa.iter().cloned().fold(f64::NEG_INFINITY, f64::max));
            let (minb, maxb) = (pb.iter().cloned().fold(f64::INFINITY, f64::min), pb.iter().cloned().fold(f64::NEG_INFINITY, f64::max));
            let gap = f64::max(minb - maxa, mina - maxb);
            if gap > best {
                best = gap;
            }
        }
    }
    best
}

pub fn is_convex(v: &[(f64, f64)]) -> bool {
    let n = v.len();
    let mut sign = 0.;
    for i in 0..n {
        let (a, b, c) = (v[i], v[(i + 1) % n], v[(i + 2) % n]);
        let cr = (b.0 - a.0) * (c.1 - b.1) - (b.1 - a.1) * (c.0 - b.0);
        if cr.abs() < 1e-9 {
            return false;
        }
        if sign == 0. {
            sign = cr.signum();
        } else if cr.signum() != sign {
            return false;
        }
    }
    true
}

/// signed separation of two placed copies of the shape (discs: min over pairs of dist - r1 - r2)
pub fn separation(items: &Items, a: &M9, b: &M9) -> Option<f64> {
    match items {
        Items::Segs(s) => Some(sat_separation(&poly_vertices(s, a), &poly_vertices(s, b))),
        Items::Discs(d) => {
            let mut best = f64::INFINITY;
            for p in d.iter() {
                for q in d.iter() {
                    let (x1, y1) = apply(a, (p[0], p[1]));
                    let (x2, y2) = apply(b, (q[0], q[1]));
                    let s = ((x1 - x2).powi(2) + (y1 - y2).powi(2)).sqrt() - p[2] - q[2];
                    if s < best {
                        best = s;
                    }
                }
            }
            Some(best)
        }
        Items::Ljs(_) => None,
    }
}

/// is there an edge of `a` and an edge of `b` on (nearly) one line?  The class of the known finding D12.
pub fn has_collinear_edges(a: &[(f64, f64)], b: &[(f64, f64)]) -> bool {
    let (na, nb) = (a.len(), b.len());
    for i in 0..na {
        let (p, q) = (a[i], a[(i + 1) % na]);
        let (dx, dy) = (q.0 - p.0, q.1 - p.1);
        let l = (dx * dx + dy * dy).sqrt();
        if l == 0. {
            continue;
        }
        for j in 0..nb {
            let (r, s) = (b[j], b[(j + 1) % nb]);
            let (ex, ey) = (s.0 - r.0, s.1 - r.1);
            let m = (ex * ex + ey * ey).sqrt();
            if m == 0. {
                continue;
            }
            let sin = (dx * ey - dy * ex) / (l * m);
            let dist = ((r.0 - p.0) * dy - (r.1 - p.1) * dx) / l;
            if sin.abs() < 1e-6 && dist.abs() < 1e-6 * (1. + l) {
                return true;
            }
        }
    }
    false
}

/// do all transversal edge crossings of the two polygons sit at a vertex of one of them (within 1e-9
/// in the edge parameter)?  The class of the known finding D13: such overlaps are only seen through the
/// closed ends of the parameter interval, which rounding can move outside.
pub fn only_vertex_crossings(a: &[(f64, f64)], b: &[(f64, f64)]) -> bool {
    let (na, nb) = (a.len(), b.len());
    let mut any = false;
    for i in 0..na {
        let (p, q) = (a[i], a[(i + 1) % na]);
        let (dx, dy) = (q.0 - p.0, q.1 - p.1);
        for j in 0..nb {
            let (r, s) = (b[j], b[(j + 1) % nb]);
            let (ex, ey) = (s.0 - r.0, s.1 - r.1);
            let den = ey * dx - ex * dy;
            let l = (dx * dx + dy * dy).sqrt() * (ex * ex + ey * ey).sqrt();
            if den.abs() < 1e-6 * l {
                continue;
            }
            let ua = (ex * (p.1 - r.1) - ey * (p.0 - r.0)) / den;
            let ub = (dx * (p.1 - r.1) - dy * (p.0 - r.0)) / den;
            let tol = 1e-9;
            if ua >= -tol && ua <= 1. + tol && ub >= -tol && ub <= 1. + tol {
                any = true;
                let at_vertex = ua.abs() <= tol || (ua - 1.).abs() <= tol || ub.abs() <= tol || (ub - 1.).abs() <= tol;
                if !at_vertex {
                    return false;
                }
            }
        }
    }
    any
}

/// exact area of a union of discs by Green's theorem over the uncovered boundary arcs
pub fn union_area(d: &[[f64; 3]]) -> f64 {
    let two_pi = 2. * PI;
    let mut area = 0.;
    for (i, c) in d.iter().enumerate() {
        let (x, y, r) = (c[0], c[1], c[2]);
        if r <= 0. {
            continue;
        }
        let mut cuts: Vec<f64> = vec![];
        let mut covered = false;
        for (j, o) in d.iter().enumerate() {
            if i == j {
                continue;
            }
            let (dx, dy) = (o[0] - x, o[1] - y);
            let dist = (dx * dx + dy * dy).sqrt();
            if dist + r <= o[2] && (dist > 0. || r < o[2] || j < i) {
                covered = true; // inside the other disc (ties: the earlier disc keeps the boundary)
                break;
            }
            if dist >= r + o[2] || dist + o[2] <= r || dist == 0. {
                continue;
            }
            let a = ((r * r - o[2] * o[2] + dist * dist) / (2. * dist * r)).max(-1.).min(1.).acos();
            let base = dy.atan2(dx);
            cuts.push((base - a).rem_euclid(two_pi));
            cuts.push((base + a).rem_euclid(two_pi));
        }
        if covered {
            continue;
        }
        if cuts.is_empty() {
            area += PI * r * r;
            continue;
        }
        cuts.sort_by(|a, b| a.partial_cmp(b).unwrap());
        for k in 0..cuts.len() {
            let t1 = cuts[k];
            let t2 = if k + 1 < cuts.len() { cuts[k + 1] } else { cuts[0] + two_pi };
            if t2 - t1 <= 0. {
                continue;
            }
            let tm = 0.5 * (t1 + t2);
            let (mx, my) = (x + r * tm.cos(), y + r * tm.sin());
            let inside_other = d.iter().enumerate().any(|(j, o)| j != i && (mx - o[0]).powi(2) + (my - o[1]).powi(2) < o[2] * o[2]);
            if inside_other {
                continue;
            }
            area += 0.5 * (r * (x * (t2.sin() - t1.sin()) - y * (t2.cos() - t1.cos())) + r * r * (t2 - t1));
        }
    }
    area
}

/// D7's class: three discs with a common interior point, or a disc inside another one
pub fn triple_or_nested(d: &[[f64; 3]]) -> bool {
    let n = d.len();
    for i in 0..n {
        for j in 0..n {
            if i != j {
                let dist = ((d[i][0] - d[j][0]).powi(2) + (d[i][1] - d[j][1]).powi(2)).sqrt();
                if dist + d[i][2] <= d[j][2] * (1. + 1e-12) {
                    return true;
                }
            }
        }
    }
    // three discs share interior points iff a vertex of the lens of two of them (a boundary intersection
    // point), or the middle of that lens, lies strictly inside a third disc
    for i in 0..n {
        for j in (i + 1)..n {
            let (dx, dy) = (d[j][0] - d[i][0], d[j][1] - d[i][1]);
            let dist = (dx * dx + dy * dy).sqrt();
            if dist == 0. || dist >= d[i][2] + d[j][2] || dist <= (d[i][2] - d[j][2]).abs() {
                continue;
            }
            let a = (d[i][2] * d[i][2] - d[j][2] * d[j][2] + dist * dist) / (2. * dist);
            let h = (d[i][2] * d[i][2] - a * a).max(0.).sqrt();
            let (px, py) = (d[i][0] + a * dx / dist, d[i][1] + a * dy / dist);
            let cand = [(px + h * dy / dist, py - h * dx / dist), (px - h * dy / dist, py + h * dx / dist), (px, py)];
            for k in 0..n {
                if k == i || k == j {
                    continue;
                }
                for p in cand.iter() {
                    if (p.0 - d[k][0]).powi(2) + (p.1 - d[k][1]).powi(2) < d[k][2] * d[k][2] * (1. - 1e-12) {
                        return true;
                    }
                }
            }
        }
    }
    false
}

fn frac_dist(x: f64) -> f64 {
    (x - x.round()).abs()
}

// ---------------------------------------------------------------------------------------

pub struct GeomOut {
    pub findings: Vec<Finding>,
    pub meta: String,
}

/// the distance of the shape's farthest point from its origin, from the items alone (0 for point particles)
fn oracle_radius(items: &Items) -> f64 {
    match items {
        Items::Segs(v) => v.iter().map(|s| (s[0] * s[0] + s[1] * s[1]).sqrt().max((s[2] * s[2] + s[3] * s[3]).sqrt())).fold(0., f64::max),
        Items::Discs(v) => v.iter().map(|d| (d[0] * d[0] + d[1] * d[1]).sqrt() + d[2]).fold(0., f64::max),
        _ => 0.,
    }
}

fn add(f: &mut Vec<Finding>, p: &'static str, w: String) {
    if f.len() < 12 {
        f.push(Finding { property: p, what: w });
    }
}

pub fn run_state_case(spec: &Spec, out: &mut dyn Write) -> GeomOut {
    let mut f: Vec<Finding> = vec![];
    let st = match catch_unwind(AssertUnwindSafe(|| build(spec))) {
        Ok(s) => s,
        Err(_) => {
            let notes: Vec<String> = BUILD_NOTES.with(|n| n.borrow_mut().drain(..).collect());
            return GeomOut { findings: notes.into_iter().map(|w| Finding { property: "C08,C20", what: w }).collect(), meta: "built=false".into() };
        }
    };
    BUILD_NOTES.with(|n| n.borrow_mut().clear());
    let group = spec.get("group");
    let js = st.json();
    let site = &js["occupied_sites"][0];
    let (sx, sy, phi) = (site["x"].as_f64().unwrap(), site["y"].as_f64().unwrap(), site["angle"].as_f64().unwrap());
    let syms: Vec<M9> = site["wyckoff"]["symmetries"]
        .as_array()
        .unwrap()
        .iter()
        .map(|a| {
            let v: Vec<f64> = a.as_array().unwrap().iter().map(|x| x.as_f64().unwrap()).collect();
            // serde of Matrix3 is column-major
            [v[0], v[3], v[6], v[1], v[4], v[7], v[2], v[5], v[8]]
        })
        .collect();
    let (a, b, angle, area) = st.cell();
    // C04/C08/C10: the written structure keeps the crystal family of its group, and with it the right angle
    {
        let fam = js["cell"]["family"].as_str().unwrap_or("?").to_string();
        let want = if group == "p1" || group == "p2" { "Monoclinic" } else { "Orthorhombic" };
        if fam != want && !spec.kv.contains_key("family") {
            add(&mut f, "C04,C08,C10", format!("the cell of a {} structure has crystal family {}, the group's family is {}", group, fam, want));
        }
        if want == "Orthorhombic" && spec.kv.contains_key("opt") && angle != std::f64::consts::FRAC_PI_2 {
            add(&mut f, "C04,C08", format!("optimisation changed the cell angle of the rectangular group {} to {:?}", group, angle));
        }
        // C08: after optimisation (possibly several chained stages) every parameter is within the range
        // declared for the state the chain started from, and the score is defined and finite
        if spec.kv.contains_key("opt") {
            let mut s0 = spec.clone();
            s0.kv.remove("opt");
            // "given a valid state": an injected start state counts when its score is defined and finite and
            // its parameters lie in the ranges the optimiser itself may produce (the side ratio may exceed 1)
            let valid_start = |init: &St| -> bool {
                if !spec.kv.contains_key("len") {
                    return true;
                }
                let j = init.json();
                let s = &j["occupied_sites"][0];
                let (l, r, a) = (j["cell"]["length"].as_f64().unwrap_or(f64::NAN), j["cell"]["ratio"].as_f64().unwrap_or(f64::NAN), j["cell"]["angle"].as_f64().unwrap_or(f64::NAN));
                let (x, y, p) = (s["x"].as_f64().unwrap_or(f64::NAN), s["y"].as_f64().unwrap_or(f64::NAN), s["angle"].as_f64().unwrap_or(f64::NAN));
                let ang_ok = if want == "Monoclinic" { a >= PI / 6. && a <= PI / 2. } else { a == std::f64::consts::FRAC_PI_2 };
                init.score().map(|v| v.is_finite()).unwrap_or(false)
                    && l >= 0.01 && r >= 0.1 && ang_ok && x >= -0.5 && x <= 0.5 && y >= -0.5 && y <= 0.5 && p >= 0. && p <= 2. * PI
                    && j["occupied_sites"].as_array().map(|v| v.len()).unwrap_or(0) == 1
            };
            if let Some(init) = catch_unwind(AssertUnwindSafe(|| build(&s0))).ok().filter(|i| valid_start(i)) {
                let j0 = init.json();
                let g = |v: &Value, a: &str, b: &str| -> f64 { v[a][b].as_f64().unwrap_or(f64::NAN) };
                let (l0, l1) = (g(&j0, "cell", "length"), g(&js, "cell", "length"));
                let (r0, r1) = (g(&j0, "cell", "ratio"), g(&js, "cell", "ratio"));
                let (a0, a1) = (g(&j0, "cell", "angle"), g(&js, "cell", "angle"));
                if !(l1 >= 0.01 && l1 <= l0) {
                    add(&mut f, "C08", format!("cell length {:?} outside [0.01, {:?}] after optimisation", l1, l0));
                }
                if !(r1 >= 0.1 && r1 <= r0) {
                    add(&mut f, "C08", format!("side ratio {:?} outside [0.1, {:?}] after optimisation", r1, r0));
                }
                if want == "Monoclinic" {
                    if !(a1 >= PI / 6. && a1 <= PI / 2.) {
                        add(&mut f, "C08", format!("cell angle {:?} outside [pi/6, pi/2] after optimisation", a1));
                    }
                } else if a1.to_bits() != a0.to_bits() {
                    add(&mut f, "C08", format!("cell angle of a rectangular group changed from {:?} to {:?}", a0, a1));
                }
                let st1 = &js["occupied_sites"][0];
                let (x1, y1, p1) = (st1["x"].as_f64().unwrap_or(f64::NAN), st1["y"].as_f64().unwrap_or(f64::NAN), st1["angle"].as_f64().unwrap_or(f64::NAN));
                if !(x1 >= -0.5 && x1 <= 0.5 && y1 >= -0.5 && y1 <= 0.5) {
                    add(&mut f, "C08", format!("site coordinates ({:?}, {:?}) outside [-1/2,1/2]^2 after optimisation", x1, y1));
                }
                if !(p1 >= 0. && p1 <= 2. * PI) {
                    add(&mut f, "C08", format!("site orientation {:?} outside [0, 2 pi] after optimisation", p1));
                }
                match st.score() {
                    Some(sc) if sc.is_finite() => {}
                    other => add(&mut f, "C08", format!("the optimised state has score {:?}", other)),
                }
            }
        }
        let wname = js["wallpaper"]["name"].as_str().unwrap_or("?");
        if wname != group {
            add(&mut f, "C10", format!("a structure built for {} is labelled {}", group, wname));
        }
    }
    let len = js["cell"]["length"].as_f64().unwrap();
    let ratio = js["cell"]["ratio"].as_f64().unwrap();
    let (cs, sn) = (angle.cos(), angle.sin());
    let items = st.items();
    let (impl_radius, sarea) = st.radius_area();
    // the oracles below use a reach computed from the items alone (never less than the implementation's own radius)
    let orad = oracle_radius(&items);
    let radius = if orad.is_finite() && orad > impl_radius { orad } else { impl_radius };
    // ---------------- C02: the area of the shape
    match &items {
        Items::Segs(v) => {
            let verts: Vec<(f64, f64)> = v.iter().map(|i| (i[0], i[1])).collect();
            let mut sh = 0.;
            for k in 0..verts.len() {
                let (p, q) = (verts[k], verts[(k + 1) % verts.len()]);
                sh += p.0 * q.1 - p.1 * q.0;
            }
            let want = 0.5 * sh.abs();
            if (sarea - want).abs() > 1e-9 * want.max(1.) {
                add(&mut f, "C02", format!("polygon area {:?}, the shoelace formula on its vertices gives {:?}", sarea, want));
            }
            // consecutive edges must join up (a closed polygon)
            for k in 0..v.len() {
                let (e, s2) = (&v[k], &v[(k + 1) % v.len()]);
                if (e[2] - s2[0]).abs() > 1e-12 || (e[3] - s2[1]).abs() > 1e-12 {
                    add(&mut f, "C02,C12", format!("polygon edge {} does not end where edge {} starts", k, (k + 1) % v.len()));
                    break;
                }
            }
        }
        Items::Discs(v) => {
            let want = union_area(v);
            // two discs tangent to within rounding (externally or internally): the lens formula of the code AND the
            // arc decomposition of this oracle both evaluate acos next to 1 and keep only half of their digits
            // (errors of about sqrt(machine epsilon) * r^2 ~ 1e-8) - neither can judge the other more finely there
            let mut tangent = false;
            for i in 0..v.len() {
                for j in (i + 1)..v.len() {
                    let d = ((v[i][0] - v[j][0]).powi(2) + (v[i][1] - v[j][1]).powi(2)).sqrt();
                    let (s, t) = (v[i][2] + v[j][2], (v[i][2] - v[j][2]).abs());
                    if (d - s).abs() <= 1e-13 * s || (d - t).abs() <= 1e-13 * s {
                        tangent = true;
                    }
                }
            }
            let tol = if tangent { 1e-7 } else { 1e-9 };
            if !(sarea.is_finite()) || (sarea - want).abs() > tol * want.max(1.) {
                let class = if triple_or_nested(v) { " [class=triple-or-nested]" } else { "" };
                add(&mut f, "C02", format!("molecule area {:?}, the area of the union of its discs is {:?}{}", sarea, want, class));
            }
        }
        _ => {}
    }
    let rel = st.rel();
    let cart = st.cart();
    let score = catch_unwind(AssertUnwindSafe(|| st.score()));
    let score = match score {
        Ok(s) => s,
        Err(_) => {
            add(&mut f, "C20", "score() panicked".into());
            None
        }
    };
    let multi = js["occupied_sites"].as_array().map(|a| a.len()).unwrap_or(1) > 1;
    let n = if multi { st.total() } else { syms.len() };

    writeln!(out, "K {}", spec.text).unwrap();

    writeln!(out, "Y {}", n).unwrap();
    for s in syms.iter() {
        writeln!(out, "S {}", hex9(s)).unwrap();
    }
    // every occupied site, in order (the command line occupies one; the library and a file may occupy several)
    for site in js["occupied_sites"].as_array().map(|a| a.as_slice()).unwrap_or(&[]) {
        let (x, y, ang) = (site["x"].as_f64().unwrap_or(f64::NAN), site["y"].as_f64().unwrap_or(f64::NAN), site["angle"].as_f64().unwrap_or(f64::NAN));
        writeln!(out, "T {} {} {} {}", hex(x), hex(y), hex(ang.cos()), hex(ang.sin())).unwrap();
    }
    writeln!(out, "L {} {} {} {}", hex(len), hex(ratio), hex(cs), hex(sn)).unwrap();
    match &items {
        Items::Segs(v) => {
            writeln!(out, "P {}", v.len()).unwrap();
            for i in v {
                writeln!(out, "I {} {} {} {}", hex(i[0]), hex(i[1]), hex(i[2]), hex(i[3])).unwrap();
            }
        }
        Items::Discs(v) => {
            writeln!(out, "M {}", v.len()).unwrap();
            for i in v {
                writeln!(out, "I {} {} {}", hex(i[0]), hex(i[1]), hex(i[2])).unwrap();
            }
        }
        Items::Ljs(v) => {
            writeln!(out, "J {}", v.len()).unwrap();
            for i in v {
                writeln!(out, "I {} {} {} {} {}", hex(i.0), hex(i.1), hex(i.2), hex(i.3), hexo(i.4)).unwrap();
            }
        }
    }
    writeln!(out, "Q {} {}", hex(impl_radius), hex(sarea)).unwrap();
    for m in rel.iter() {
        writeln!(out, "r {}", hex9(m)).unwrap();
    }
    for m in cart.iter() {
        writeln!(out, "c {}", hex9(m)).unwrap();
    }
    let k: i64 = spec.i_or("k", 1);
    let zero = spec.u_or("zero", 0) == 1;
    let idx = (spec.u_or("idx", 0) as usize).min(n.saturating_sub(1));
    let imgs = st.images(idx, k, zero);
    writeln!(out, "g {} {} {} {}", idx, k, if zero { 1 } else { 0 }, imgs.len()).unwrap();
    for m in imgs.iter() {
        writeln!(out, "i {}", hex9(m)).unwrap();
    }
    writeln!(out, "s {}", hexo(score)).unwrap();
    writeln!(out, "a {}", hex(area)).unwrap();

    let scale = a.abs().max(b.abs()).max(1.);
    let finite_cell = a.is_finite() && b.is_finite() && sn.is_finite();
    // ---------------- C15: the site's copies
    let ops = ita(group);
    if rel.len() != ops.len() && !multi {
        add(&mut f, "C15", format!("{} placements for a site of group {} (order {})", rel.len(), group, ops.len()));
    }
    let (cphi, sphi) = (phi.cos(), phi.sin());
    let finite_site = sx.is_finite() && sy.is_finite() && phi.is_finite();
    if finite_site && !multi {
        for (kk, (m, (l, t))) in rel.iter().zip(ops.iter()).enumerate() {
            let (fx, fy) = (m[2], m[5]);
            if !(fx >= -0.5 && fx < 0.5 && fy >= -0.5 && fy < 0.5) {
                add(&mut f, "C15", format!("placement {} has fractional position ({:?}, {:?}) outside [-1/2,1/2)^2", kk, fx, fy));
            }
            let (ex, ey) = (l[0] * sx + l[1] * sy + t[0], l[2] * sx + l[3] * sy + t[1]);
            let tol = 1e-12 * (1. + sx.abs() + sy.abs());
            if frac_dist(fx - ex) > tol || frac_dist(fy - ey) > tol {
                add(&mut f, "C15,C04", format!(
                    "placement {} is at ({:?}, {:?}), operation {} applied to the site ({:?}, {:?}) gives ({:?}, {:?}) modulo the lattice",
                    kk, fx, fy, kk, sx, sy, ex, ey));
            }
            // linear part = L_k R(phi)
            let want = [l[0] * cphi + l[1] * sphi, -l[0] * sphi + l[1] * cphi, l[2] * cphi + l[3] * sphi, -l[2] * sphi + l[3] * cphi];
            let got = [m[0], m[1], m[3], m[4]];
            if want.iter().zip(got.iter()).any(|(w, g)| (w - g).abs() > 1e-12) {
                add(&mut f, "C15,C04", format!("placement {} has linear part {:?}, expected operation {} times the site rotation = {:?}", kk, got, kk, want));
            }
        }
    }
    // ---------------- C14: Cartesian map, images, area
    if finite_cell && finite_site {
        let (ax, ay) = (a, 0.);
        let (bx, by) = (b * cs, b * sn);
        let cross = (ax * by - ay * bx).abs();
        if (area - cross).abs() > 1e-12 * scale * scale && sn >= 0. {
            add(&mut f, "C14,C02", format!("cell area {:?} differs from |A x B| = {:?}", area, cross));
        }
        for p in [(1., 0.), (0., 1.), (0.25, -0.75), (sx, sy)].iter() {
            let (cx, cy) = st.to_cart(p.0, p.1);
            let (ex, ey) = (p.0 * ax + p.1 * bx, p.0 * ay + p.1 * by);
            if (cx - ex).abs() > 1e-12 * scale * (1. + p.0.abs() + p.1.abs()) || (cy - ey).abs() > 1e-12 * scale * (1. + p.0.abs() + p.1.abs()) {
                add(&mut f, "C14", format!("to_cartesian{:?} = ({:?},{:?}), expected x A + y B = ({:?},{:?})", p, cx, cy, ex, ey));
            }
        }
        let (corners, center) = st.corners_center();
        let want = [(-0.5, -0.5), (-0.5, 0.5), (0.5, 0.5), (0.5, -0.5)];
        for (c, w) in corners.iter().zip(want.iter()) {
            let (ex, ey) = (w.0 * ax + w.1 * bx, w.0 * ay + w.1 * by);
            if (c.0 - ex).abs() > 1e-12 * scale || (c.1 - ey).abs() > 1e-12 * scale {
                add(&mut f, "C14,C11", format!("cell corner {:?} is at {:?}, expected {:?}", w, c, (ex, ey)));
            }
        }
        let (ex, ey) = (0.5 * ax + 0.5 * bx, 0.5 * ay + 0.5 * by);
        if (center.0 - ex).abs() > 1e-12 * scale || (center.1 - ey).abs() > 1e-12 * scale {
            add(&mut f, "C14", format!("cell centre {:?}, expected {:?}", center, (ex, ey)));
        }
        // images of placement idx
        // (a negative shell count is an empty range: no images at all)
        let want_n = if k < 0 { 0 } else { ((2 * k + 1) * (2 * k + 1)) as usize - if zero { 0 } else { 1 } };
        if imgs.len() != want_n {
            add(&mut f, "C14", format!("{} periodic images within {} shells (zero={}), expected {}", imgs.len(), k, zero, want_n));
        } else if idx < cart.len() {
            let base = &cart[idx];
            let mut it = imgs.iter();
            'outer: for nn in -k..=k {
                for mm in -k..=k {
                    if !zero && nn == 0 && mm == 0 {
                        continue;
                    }
                    let m = it.next().unwrap();
                    let (ex, ey) = (base[2] + nn as f64 * ax + mm as f64 * bx, base[5] + nn as f64 * ay + mm as f64 * by);
                    let tol = 1e-12 * scale * (1. + k as f64);
                    if (m[2] - ex).abs() > tol || (m[5] - ey).abs() > tol {
                        add(&mut f, "C14,C01", format!(
                            "image ({},{}) of placement {} is at ({:?},{:?}), expected the placement translated by n A + m B = ({:?},{:?})",
                            nn, mm, idx, m[2], m[5], ex, ey));
                        break 'outer;
                    }
                    if [0usize, 1, 3, 4].iter().any(|&q| m[q].to_bits() != base[q].to_bits() && !(m[q] == 0. && base[q] == 0.)) {
                        add(&mut f, "C14", format!("image ({},{}) of placement {} has a different linear part {:?} vs {:?}", nn, mm, idx, m, base));
                        break 'outer;
                    }
                }
            }
        }
    }
    // ---------------- C04: the group acts on the placements
    if finite_cell && finite_site && a > 1e-6 && b > 1e-6 && sn.abs() > 1e-6 {
        let (ax, bx, by) = (a, b * cs, b * sn);
        // C = [[ax, bx],[0, by]], C^-1 = 1/(ax by) [[by, -bx],[0, ax]]
        let det = ax * by;
        for (gi, (l, t)) in ops.iter().enumerate() {
            // L' = C L C^-1
            let cl = [ax * l[0] + bx * l[2], ax * l[1] + bx * l[3], by * l[2], by * l[3]];
            let lp = [
                (cl[0] * by) / det,
                (-cl[0] * bx + cl[1] * ax) / det,
                (cl[2] * by) / det,
                (-cl[2] * bx + cl[3] * ax) / det,
            ];
            let ct = (ax * t[0] + bx * t[1], by * t[1]);
            let orth = [lp[0] * lp[0] + lp[2] * lp[2] - 1., lp[0] * lp[1] + lp[2] * lp[3], lp[1] * lp[1] + lp[3] * lp[3] - 1.];
            if orth.iter().any(|x| x.abs() > 1e-9) {
                add(&mut f, "C04", format!(
                    "operation {} of {} is not a rigid motion of the cell a={:?} b={:?} angle={:?}: its Cartesian linear part is {:?}",
                    gi, group, a, b, angle, lp));
                continue;
            }
            for (ki, p) in cart.iter().enumerate() {
                let lin = [lp[0] * p[0] + lp[1] * p[3], lp[0] * p[1] + lp[1] * p[4], lp[2] * p[0] + lp[3] * p[3], lp[2] * p[1] + lp[3] * p[4]];
                let tr = (lp[0] * p[2] + lp[1] * p[5] + ct.0, lp[2] * p[2] + lp[3] * p[5] + ct.1);
                let mut found = false;
                for q in cart.iter() {
                    let same_lin = [q[0], q[1], q[3], q[4]].iter().zip(lin.iter()).all(|(x, y)| (x - y).abs() < 1e-9);
                    if !same_lin {
                        continue;
                    }
                    // difference of translations in fractional coordinates must be integral
                    let (dx, dy) = (tr.0 - q[2], tr.1 - q[5]);
                    let fy = dy / by;
                    let fx = (dx - fy * bx) / ax;
                    if frac_dist(fx) < 1e-9 * (1. + fx.abs()) && frac_dist(fy) < 1e-9 * (1. + fy.abs()) {
                        found = true;
                        break;
                    }
                }
                if !found {
                    add(&mut f, "C04", format!(
                        "operation {} of {} maps placement {} onto no placement of the crystal (modulo the lattice): image linear part {:?}, position {:?}",
                        gi, group, ki, lin, tr));
                    break;
                }
            }
        }
    }
    // ---------------- C01 / C12 / C02: the hard states
    let mut overlap_note = String::new();
    let mut min_sep_for_model = f64::NAN;
    if let Some(_) = st.impl_intersects(&cart[0], &cart[0]) {
        let valid_shape = match &items {
            Items::Segs(s) => is_convex(&s.iter().map(|i| (i[0], i[1])).collect::<Vec<_>>()),
            _ => true,
        };
        if finite_cell && finite_site && valid_shape && a > 0. && b > 0. && sn > 1e-9 {
            let (ax, bx, by) = (a, b * cs, b * sn);
            let height = sn * a.min(b);
            let kstar = ((2. * radius / height).ceil() as i64 + 1).min(60);
            let mut worst: f64 = f64::INFINITY;
            let mut worst_at = (0usize, 0usize, 0i64, 0i64);
            let mut collinear = false;
            // the copies the GROUP requires for this site (International Tables), not the placements the code produced:
            // operation k of the group applied to the site, wrapped into the cell, in Cartesian coordinates
            let ocart: Vec<M9> = if !multi && finite_site {
                ops.iter()
                    .map(|(l, t)| {
                        let w = |v: f64| v - (v + 0.5).floor();
                        let (fx, fy) = (w(l[0] * sx + l[1] * sy + t[0]), w(l[2] * sx + l[3] * sy + t[1]));
                        [l[0] * cphi + l[1] * sphi, -l[0] * sphi + l[1] * cphi, fx * ax + fy * bx,
                         l[2] * cphi + l[3] * sphi, -l[2] * sphi + l[3] * cphi, fy * by, 0., 0., 1.]
                    })
                    .collect()
            } else {
                cart.clone()
            };
            for (i, p) in ocart.iter().enumerate() {
                for (j, q) in ocart.iter().enumerate() {
                    for nn in -kstar..=kstar {
                        for mm in -kstar..=kstar {
                            if nn == 0 && mm == 0 && j <= i {
                                continue;
                            }
                            let mut qq = *q;
                            qq[2] += nn as f64 * ax + mm as f64 * bx;
                            qq[5] += mm as f64 * by;
                            let d2 = (p[2] - qq[2]).powi(2) + (p[5] - qq[5]).powi(2);
                            if let Items::Segs(sg) = &items {
                                // (the in-cell comparison of the implementation has no distance filter)
                                if !collinear && (d2 <= (2. * radius + 1e-6).powi(2) || (nn == 0 && mm == 0))
                                    && has_collinear_edges(&poly_vertices(sg, p), &poly_vertices(sg, &qq)) {
                                    collinear = true;
                                }
                            }
                            if d2 > (2. * radius + 1e-6).powi(2) {
                                continue;
                            }
                            if let Some(sep) = separation(&items, p, &qq) {
                                if sep < worst {
                                    worst = sep;
                                    worst_at = (i, j, nn, mm);
                                }
                            }
                        }
                    }
                }
            }
            overlap_note = format!(" minsep={:e} at={:?} kstar={}", worst, worst_at, kstar);
            min_sep_for_model = worst;
            if score.is_some() && worst < -1e-9 {
                add(&mut f, "C01", format!(
                    "the state is scored {:?} although copy {} and copy {} translated by ({},{}) cells overlap by {:e} (cell a={:?} b={:?} angle={:?})",
                    score.unwrap(), worst_at.0, worst_at.1, worst_at.2, worst_at.3, -worst, a, b, angle));
            }
            // ... nor may the placements the state itself yields overlap (they are what is written and drawn), should they
            // differ from the copies the group requires
            let differs = cart.len() != ocart.len() || cart.iter().zip(ocart.iter()).any(|(x, y)| x.iter().zip(y.iter()).any(|(u, v)| (u - v).abs() > 1e-9 * (1. + v.abs())));
            if score.is_some() && differs && !(worst < -1e-9) {
                let mut w2: f64 = f64::INFINITY;
                let mut at2 = (0usize, 0usize, 0i64, 0i64);
                for (i, p) in cart.iter().enumerate() {
                    for (j, q) in cart.iter().enumerate() {
                        for nn in -kstar..=kstar {
                            for mm in -kstar..=kstar {
                                if nn == 0 && mm == 0 && j <= i {
                                    continue;
                                }
                                let mut qq = *q;
                                qq[2] += nn as f64 * ax + mm as f64 * bx;
                                qq[5] += mm as f64 * by;
                                if (p[2] - qq[2]).powi(2) + (p[5] - qq[5]).powi(2) > (2. * radius + 1e-6).powi(2) {
                                    continue;
                                }
                                if let Some(sep) = separation(&items, p, &qq) {
                                    if sep < w2 {
                                        w2 = sep;
                                        at2 = (i, j, nn, mm);
                                    }
                                }
                            }
                        }
                    }
                }
                if w2 < -1e-9 {
                    add(&mut f, "C01", format!(
                        "the state is scored {:?} although placement {} and placement {} translated by ({},{}) cells, as the state itself yields them, overlap by {:e} (cell a={:?} b={:?} angle={:?})",
                        score.unwrap(), at2.0, at2.1, at2.2, at2.3, -w2, a, b, angle));
                }
            }
            if score.is_none() && worst > 1e-9 && area >= sarea * n as f64 {
                add(&mut f, "C12", format!(
                    "the state is reported as overlapping although all copies and images are separated by at least {:e}{}", worst,
                    if collinear { " [class=collinear-edges]" } else { "" }));
            }
            if let Some(sc) = score {
                let frac = sarea * n as f64 / (a * b * sn);
                if (sc - frac).abs() > 1e-12 * frac.abs().max(1.) {
                    add(&mut f, "C02", format!("score {:?} is not copies * shape area / |A x B| = {:?}", sc, frac));
                }
                if !(sc > 0.) || sc > 1. + 1e-9 {
                    let class = match &items {
                        Items::Discs(v) if triple_or_nested(v) => " [class=triple-or-nested]",
                        _ => "",
                    };
                    add(&mut f, "C02", format!("packing fraction {:?} outside (0, 1]{}", sc, class));
                }
            }
        }
    }
    // ---------------- C08: the state a group and a shape start from (no injected parameters, no optimisation) is valid:
    // its score is defined and finite
    if !spec.kv.contains_key("len") && !spec.kv.contains_key("opt") && !spec.kv.contains_key("family") && !multi
        && !matches!(items, Items::Ljs(_)) && sarea.is_finite() && sarea > 0. {
        match score {
            Some(v) if v.is_finite() && v > 0. => {}
            other => add(&mut f, "C08", format!(
                "the state {} starts from for shape {} has score {:?}: not a valid state (cell a={:?} b={:?} angle={:?}, enclosing_radius() = {:?}, reach of the shape {:?})",
                group, spec.get("shape"), other, a, b, angle, impl_radius, orad)),
        }
    }
    // ---------------- C02 / C11: the score is a function of the state as serialised, whatever was scored before
    if let Some((a, b)) = st.reshape_then_score() {
        let same = match (a, b) {
            (Some(x), Some(y)) => x.to_bits() == y.to_bits() || (x.is_nan() && y.is_nan()),
            (None, None) => true,
            _ => false,
        };
        if !same {
            add(&mut f, "C02,C03,C11", format!(
                "a state that was scored, then given another shape, scores {:?}; the state rebuilt from its own JSON scores {:?}", a, b));
        }
    }
    // ---------------- C01 / C02 / C09: the score after a move equals the score of the state as it now is
    if spec.kv.contains_key("len") && !spec.kv.contains_key("x2") && !spec.kv.contains_key("opt") && !spec.kv.contains_key("family") {
        let mut s0 = spec.clone();
        for k in ["len", "ratio", "angle", "x", "y", "phi", "rots", "prev", "k", "zero", "idx"].iter() {
            s0.kv.remove(*k);
        }
        if let Ok(start) = catch_unwind(AssertUnwindSafe(|| build(&s0))) {
            if let Some((moved, fresh)) = st.moved_then_score(&start) {
                let same = match (moved, fresh) {
                    (Some(x), Some(y)) => x.to_bits() == y.to_bits() || (x.is_nan() && y.is_nan()),
                    (None, None) => true,
                    _ => false,
                };
                if !same {
                    add(&mut f, "C01,C02,C03,C09", format!(
                        "a state scored where it was built and then moved through its handles to these parameters scores {:?}; the same state read from its JSON scores {:?}", moved, fresh));
                }
            }
        }
    }
    // ---------------- C11: JSON round trip and SVG
    if finite_cell && finite_site {
        match st.roundtrip() {
            Err(e) => add(&mut f, "C11", format!("the state cannot be written and read back: {}", e)),
            Ok((text, sc2, pos2, again)) => {
                // does every number of the document survive print + parse on its own?  (serde_json 1.0.57 does not
                // parse every shortest decimal back to the same double: known finding D16)
                let mut nums: Vec<f64> = vec![];
                fn collect(v: &Value, out: &mut Vec<f64>) {
                    match v {
                        Value::Number(n) => { if let Some(x) = n.as_f64() { out.push(x) } }
                        Value::Array(a) => a.iter().for_each(|x| collect(x, out)),
                        Value::Object(m) => m.values().for_each(|x| collect(x, out)),
                        _ => {}
                    }
                }
                collect(&js, &mut nums);
                let text_layer_inexact = nums.iter().any(|x| {
                    let t = serde_json::to_string(x).unwrap_or_default();
                    serde_json::from_str::<f64>(&t).map(|y| y.to_bits() != x.to_bits()).unwrap_or(true)
                });
                let class = if text_layer_inexact { " [class=serde-json-float-parse]" } else { "" };
                let same_score = match (score, sc2) {
                    (Some(a), Some(b)) => a.to_bits() == b.to_bits() || (a.is_nan() && b.is_nan()),
                    (None, None) => true,
                    _ => false,
                };
                if !same_score {
                    add(&mut f, "C11", format!("score {:?} before writing, {:?} after reading the JSON back{}", score, sc2, class));
                }
                if pos2.len() != cart.len() || pos2.iter().zip(cart.iter()).any(|(a, b)| a.iter().zip(b.iter()).any(|(x, y)| x.to_bits() != y.to_bits() && !(x.is_nan() && y.is_nan()))) {
                    add(&mut f, "C11", format!("the placements change when the state is written to JSON and read back{}", class));
                }
                if again != text {
                    add(&mut f, "C11", format!("re-serialising the state read back from JSON gives a different text{}", class));
                }
            }
        }
        // the SVG: 9 cell frames, then per placement the placement itself and its 8 nearest images
        let svg = st.svg();
        // ... and what is placed there: the definition `#mol` draws the shape itself (the discs with their centres and
        // radii - half of sigma for Lennard-Jones particles; the polygon through its vertices, in single precision as
        // the svg crate writes path data), and `#cell` the cell's own outline
        {
            let group = |id: &str| -> Option<String> {
                let open = format!("<g id=\"{}\">", id);
                let i = svg.find(&open)? + open.len();
                let j = svg[i..].find("</g>")? + i;
                Some(svg[i..j].to_string())
            };
            let attr = |tag: &str, name: &str| -> Option<f64> {
                let key = format!("{}=\"", name);
                let i = tag.find(&key)? + key.len();
                let j = tag[i..].find('"')? + i;
                tag[i..j].parse::<f64>().ok()
            };
            let path_points = |g: &str| -> Option<Vec<(f64, f64)>> {
                let i = g.find("d=\"")? + 3;
                let j = g[i..].find('"')? + i;
                let mut pts = vec![];
                for tok in g[i..j].split_whitespace() {
                    let t = tok.trim_start_matches(|c: char| c == 'M' || c == 'L');
                    if t == "z" || t.is_empty() { continue; }
                    let mut it = t.split(',');
                    let x = it.next()?.parse::<f64>().ok()?;
                    let y = it.next()?.parse::<f64>().ok()?;
                    pts.push((x, y));
                }
                Some(pts)
            };
            let single = |want: f64, got: f64, scale: f64| -> bool { (want - got).abs() <= 2e-6 * want.abs().max(scale) };
            match (group("mol"), &items) {
                (None, _) => add(&mut f, "C11", "the SVG has no definition of the shape (#mol)".into()),
                (Some(g), Items::Discs(v)) => {
                    let circles: Vec<&str> = g.split("<circle ").skip(1).collect();
                    if circles.len() != v.len() {
                        add(&mut f, "C11", format!("the SVG draws the molecule with {} circles, it has {} discs", circles.len(), v.len()));
                    } else {
                        for (c, d) in circles.iter().zip(v.iter()) {
                            let got = (attr(c, "cx"), attr(c, "cy"), attr(c, "r"));
                            if got != (Some(d[0]), Some(d[1]), Some(d[2])) && !(d[0] == 0. && d[1] == 0. && got == (Some(0.), Some(0.), Some(d[2]))) {
                                add(&mut f, "C11", format!("the SVG draws a disc as {:?}, the molecule has (x, y, r) = {:?}", got, d));
                                break;
                            }
                        }
                    }
                }
                (Some(g), Items::Ljs(v)) => {
                    let circles: Vec<&str> = g.split("<circle ").skip(1).collect();
                    if circles.len() != v.len() {
                        add(&mut f, "C11", format!("the SVG draws the molecule with {} circles, it has {} particles", circles.len(), v.len()));
                    } else {
                        for (c, p) in circles.iter().zip(v.iter()) {
                            let got = (attr(c, "cx"), attr(c, "cy"), attr(c, "r"));
                            let want = (Some(p.0 + 0.), Some(p.1 + 0.), Some(p.2 / 2.));
                            if got != want {
                                add(&mut f, "C11", format!("the SVG draws a particle as {:?}, the molecule has (x, y, sigma/2) = {:?}", got, want));
                                break;
                            }
                        }
                    }
                }
                (Some(g), Items::Segs(v)) => {
                    let want: Vec<(f64, f64)> = v.first().map(|i| (i[0], i[1])).into_iter().chain(v.iter().map(|i| (i[2], i[3]))).collect();
                    match path_points(&g) {
                        Some(pts) if pts.len() == want.len() => {
                            let sc = want.iter().fold(0f64, |a, p| a.max(p.0.abs()).max(p.1.abs()));
                            if let Some(k) = (0..pts.len()).find(|&k| !(single(want[k].0, pts[k].0, sc) && single(want[k].1, pts[k].1, sc))) {
                                add(&mut f, "C11", format!("the SVG draws vertex {} of the polygon at {:?}, the shape has it at {:?}", k, pts[k], want[k]));
                            }
                        }
                        other => add(&mut f, "C11", format!("the SVG draws the polygon through {:?} points, the shape has {} edges", other.map(|p| p.len()), v.len())),
                    }
                }
            }
            // the cell outline: the corners (-1/2,-1/2), (-1/2,1/2), (1/2,1/2), (1/2,-1/2) of the cell
            if let Some(pts) = group("cell").and_then(|g| path_points(&g)) {
                let corners: Vec<(f64, f64)> = [(-0.5, -0.5), (-0.5, 0.5), (0.5, 0.5), (0.5, -0.5)].iter()
                    .map(|(u, w)| (u * a + w * b * cs, w * b * sn)).collect();
                let sc = a.abs().max(b.abs());
                if pts.len() != 4 || (0..4).any(|k| !(single(corners[k].0, pts[k].0, sc) && single(corners[k].1, pts[k].1, sc))) {
                    add(&mut f, "C11", format!("the SVG outlines the cell through {:?}, its corners are {:?}", pts, corners));
                }
            } else {
                add(&mut f, "C11", "the SVG has no outline of the cell (#cell)".into());
            }
        }
        let mut uses: Vec<(String, Vec<f64>)> = vec![];
        for tag in svg.split("<use ").skip(1) {
            let tag = &tag[..tag.find('>').unwrap_or(tag.len())];
            let href = tag.split("href=\"").nth(1).map(|t| t[..t.find('"').unwrap_or(0)].to_string()).unwrap_or_default();
            let nums: Vec<f64> = tag
                .split("matrix(").nth(1)
                .map(|t| t[..t.find(')').unwrap_or(0)].split_whitespace().map(|x| x.parse::<f64>().unwrap_or(f64::NAN)).collect())
                .unwrap_or_default();
            uses.push((href, nums));
        }
        let mut expect: Vec<(String, M9)> = vec![];
        {
            let (ax, bx, by) = (a, b * cs, b * sn);
            for nn in -1i64..=1 {
                for mm in -1i64..=1 {
                    expect.push(("#cell".into(), [1., 0., nn as f64 * ax + mm as f64 * bx, 0., 1., mm as f64 * by, 0., 0., 1.]));
                }
            }
            for p in cart.iter() {
                expect.push(("#mol".into(), *p));
                for nn in -1i64..=1 {
                    for mm in -1i64..=1 {
                        if nn == 0 && mm == 0 {
                            continue;
                        }
                        let mut q = *p;
                        q[2] += nn as f64 * ax + mm as f64 * bx;
                        q[5] += mm as f64 * by;
                        expect.push(("#mol".into(), q));
                    }
                }
            }
        }
        if uses.len() != expect.len() {
            add(&mut f, "C11", format!("the SVG has {} <use> elements, expected {} (9 cell frames + 9 per placement)", uses.len(), expect.len()));
        } else {
            for (k, ((href, nums), (ehref, m))) in uses.iter().zip(expect.iter()).enumerate() {
                if href != ehref || nums.len() != 6 {
                    add(&mut f, "C11", format!("SVG element {} is {:?} with {} numbers, expected {}", k, href, nums.len(), ehref));
                    break;
                }
                // matrix(a b c d e f) = (m00 m10 m01 m11 m02 m12), entry by entry: the linear part to 1e-9, the
                // translation to 1e-9 of the cell's own scale (a structure of size 1e-13 is drawn at 1e-13, not at 0)
                let want = [m[0], m[3], m[1], m[4], m[2], m[5]];
                let cell_scale = a.abs().max(b.abs());
                let mut bad = false;
                for q in 0..6 {
                    let tol = if q < 4 { 1e-9 * want[q].abs().max(1.) } else { 1e-9 * want[q].abs().max(cell_scale) };
                    if !((nums[q] - want[q]).abs() <= tol) && !(nums[q].is_nan() && want[q].is_nan()) {
                        bad = true;
                    }
                }
                if bad {
                    add(&mut f, "C11", format!(
                        "SVG element {} ({}) draws the shape with matrix({:?}), the structure places it with {:?}", k, href, nums, &m[..6]));
                    break;
                }
            }
        }
    }
    // ---------------- C03: the LJ score is minus the lattice energy per molecule
    if let St::Lj(_) = &st {
        if finite_cell && finite_site && a > 1e-3 && b > 1e-3 && sn > 1e-3 {
            let (ax, bx, by) = (a, b * cs, b * sn);
            let cut = match &items {
                Items::Ljs(v) => v.iter().map(|i| i.4).fold(Some(0.), |acc: Option<f64>, c| match (acc, c) {
                    (Some(x), Some(y)) => Some(x.max(y)),
                    _ => None,
                }),
                _ => None,
            };
            let height = sn * a.min(b);
            // shells: the code's 3 for an uncut potential (the property allows the truncation error);
            // for a cut potential as many as the cutoff can reach
            let shells: i64 = match cut {
                Some(c) => (((c + 2. * radius) / height).ceil() as i64 + 1).max(3).min(40),
                None => 3,
            };
            // reference: every unordered pair of distinct molecule images once.  In-cell pairs (i<j) once,
            // pairs with an image half from either side; for an uncut potential the next ring of images
            // measures the truncation error the property allows
            let mut incell = 0.;
            let mut images = 0.;
            let mut beyond3 = 0.;
            let mut ring4 = 0.;
            let like = match &items {
                Items::Ljs(v) => v.iter().all(|i| i.2 == v[0].2 && i.3 == v[0].3 && i.4 == v[0].4),
                _ => true,
            };
            // uncut: rings 4..16 estimate the truncation error of the 3-shell sum
            let sh = if cut.is_none() { 16 } else { shells };
            for (i, p) in cart.iter().enumerate() {
                for (j, q) in cart.iter().enumerate() {
                    if j > i {
                        incell += st.impl_energy(p, q).unwrap_or(0.);
                    }
                    for nn in -sh..=sh {
                        for mm in -sh..=sh {
                            if nn == 0 && mm == 0 {
                                continue;
                            }
                            let mut qq = *q;
                            qq[2] += nn as f64 * ax + mm as f64 * bx;
                            qq[5] += mm as f64 * by;
                            let e = st.impl_energy(p, &qq).unwrap_or(0.);
                            if nn.abs() > 3 || mm.abs() > 3 {
                                if cut.is_none() {
                                    ring4 += e.abs();
                                } else {
                                    images += e;
                                    beyond3 += e.abs();
                                }
                            } else {
                                images += e;
                            }
                        }
                    }
                }
            }
            let want = -(incell + 0.5 * images) / n as f64;
            let trunc = ring4 / n as f64;
            if let Some(sc) = score {
                // (states with nearly coincident particles have astronomically large, ill-conditioned energies)
                if sc.is_finite() && want.is_finite() && want.abs() < 1e6 {
                    let tol = 1e-9 * (1. + want.abs());
                    if (sc - want).abs() > tol {
                        let class = if beyond3 > tol { " [class=beyond-three-shells]" } else { "" };
                        add(&mut f, "C03", format!(
                            "the score {:?} is not minus the lattice energy per molecule {:?} (in-cell pairs once, image pairs half from either side, {} shells){}",
                            sc, want, shells, class));
                    }
                }
            }
            // two descriptions of one crystal: the origin shifted by a symmetry-equivalent half lattice vector.
            // (Only for molecules of like particles: for unlike particles the pair energy itself depends on the
            // order of the pair - known finding D9 - and with it on which copies lie inside the cell.)
            // (uncut potential: the truncation error is ESTIMATED from rings 4..16; in a cell so flat that 16 rings do
            // not reach 20 length units the estimate is itself truncated and cannot bound the allowed difference)
            let estimate_ok = cut.is_some() || 16. * height >= 20.;
            if spec.kv.contains_key("len") && like && beyond3 == 0. && estimate_ok {
                for (hx, hy) in [(0.5, 0.), (0., 0.5), (0.5, 0.5)].iter() {
                    let mut s2 = spec.clone();
                    let wrapc = |v: f64| -> f64 { let w = v + 0.5; let w = w - w.floor(); w - 0.5 };
                    s2.kv.insert("x".into(), fmt_f(wrapc(sx + hx)));
                    s2.kv.insert("y".into(), fmt_f(wrapc(sy + hy)));
                    if spec.kv.contains_key("x2") {
                        s2.kv.insert("x2".into(), fmt_f(wrapc(spec.f("x2") + hx)));
                        s2.kv.insert("y2".into(), fmt_f(wrapc(spec.f("y2") + hy)));
                    }
                    if spec.kv.contains_key("x3") {
                        s2.kv.insert("x3".into(), fmt_f(wrapc(spec.f("x3") + hx)));
                        s2.kv.insert("y3".into(), fmt_f(wrapc(spec.f("y3") + hy)));
                    }
                    if let Ok(st2) = catch_unwind(AssertUnwindSafe(|| build(&s2))) {
                        if let (Some(s1), Some(s2v)) = (score, st2.score()) {
                            // the allowed difference: rounding, plus (uncut potential) the truncation error
                            let tol = 1e-9 * (1. + s1.abs()) + 3. * trunc;
                            if s1.is_finite() && s2v.is_finite() && s1.abs() < 1e6 && (s1 - s2v).abs() > tol {
                                // C03_lj_score_is_infinite_lattice_sum: when cutoff + 2 rho <= 3 height no description has
                                // in-range pairs beyond three shells; when it fails, one of the two descriptions may - that
                                // is known finding D14, showing up in the shifted description
                                let rho = match &items {
                                    Items::Ljs(v) => v.iter().map(|i| (i.0 * i.0 + i.1 * i.1).sqrt()).fold(0., f64::max),
                                    _ => 0.,
                                };
                                let class = if cut.map(|c| c + 2. * rho > 3. * height).unwrap_or(false) { " [class=beyond-three-shells]" } else { "" };
                                add(&mut f, "C03", format!(
                                    "the same crystal described with the origin shifted by ({},{}) scores {:?} instead of {:?} (allowed difference {:e}){}", hx, hy, s2v, s1, tol, class));
                                break;
                            }
                        }
                    }
                }
            }
        }
    }
    writeln!(out, "m {}", hex(min_sep_for_model)).unwrap();
    writeln!(out, "E").unwrap();
    let meta = format!(
        "built=true n={} scored={} clampx={} clampy={}{}",
        n,
        score.is_some(),
        sx.abs() == 0.5,
        sy.abs() == 0.5,
        overlap_note
    );
    let _ = PI;
    // ---------------- C01, directed search: the implementation's enclosing radius is smaller than the shape's reach.
    // check_intersection only compares copies whose centres are within twice that radius, so pairs of copies whose centres
    // are between 2 x (its radius) and 2 x (the reach) apart are never compared: such states are built here (two copies of
    // the p2 group in a large cell, at every mutual orientation) and put through the monitors above.
    if !spec.kv.contains_key("probe") && !matches!(items, Items::Ljs(_)) && orad.is_finite() && impl_radius.is_finite()
        && impl_radius > 0. && orad > impl_radius * (1. + 1e-9) {
        let mut seed: u64 = spec.text.bytes().fold(0xcbf29ce484222325u64, |h, b| (h ^ b as u64).wrapping_mul(0x100000001b3));
        let mut rnd = || {
            seed = seed.wrapping_mul(6364136223846793005).wrapping_add(1442695040888963407);
            ((seed >> 11) as f64) / ((1u64 << 53) as f64)
        };
        // (C08) the states the seven groups start from with this shape: the starting cell is sized from that radius
        for g7 in ["p1", "p2", "p1m1", "p1g1", "p2mm", "p2mg", "p2gg"].iter() {
            let text = format!("geom id={}-init-{} probe=1 kind=hard group={} shape={}", spec.get_or("id", "case"), g7, g7, spec.get("shape"));
            let mut sink: Vec<u8> = vec![];
            if let Ok(o) = catch_unwind(AssertUnwindSafe(|| run_state_case(&Spec::parse(&text), &mut sink))) {
                if let Some(x) = o.findings.into_iter().find(|x| x.property.contains("C08")) {
                    add(&mut f, "C08", format!("{} [found by the directed search started because enclosing_radius() = {:?} is less than the reach {:?} of the shape; state: {}]",
                                               x.what, impl_radius, orad, text));
                    break;
                }
            }
        }
        let len = 20. * orad;
        'probe: for t in 0..600 {
            let d = 2. * impl_radius + 2. * (orad - impl_radius) * (0.02 + 0.96 * rnd());
            let th = 2. * PI * rnd();
            let ph = 2. * PI * rnd();
            let text = format!(
                "geom id={}-probe{} probe=1 kind=hard group=p2 shape={} len={:?} ratio=1.0 angle={:?} x={:?} y={:?} phi={:?} k=1 zero=0 idx=0",
                spec.get_or("id", "case"), t, spec.get("shape"), len, PI / 2., 0.5 * d * th.cos() / len, 0.5 * d * th.sin() / len, ph);
            let mut sink: Vec<u8> = vec![];
            let o = match catch_unwind(AssertUnwindSafe(|| run_state_case(&Spec::parse(&text), &mut sink))) {
                Ok(o) => o,
                Err(_) => continue,
            };
            for x in o.findings.into_iter() {
                if x.property.contains("C01") && !f.iter().any(|y| y.property == "C01") {
                    add(&mut f, "C01", format!(
                        "{} [found by the directed search started because enclosing_radius() = {:?} is less than the reach {:?} of the shape; state: {}]",
                        x.what, impl_radius, orad, text));
                    break 'probe;
                }
            }
        }
    }
    GeomOut { findings: f, meta }
}

/// pair case: two explicit placements of one shape (C12)
/// spec: geom id=.. mode=pair shape=.. t1=phi:x:y:mirror t2=phi:x:y:mirror [common=phi:x:y:mirror]
pub fn run_pair_case(spec: &Spec, out: &mut dyn Write) -> GeomOut {
    let mut f: Vec<Finding> = vec![];
    let mut s2 = spec.clone();
    s2.kv.insert("group".into(), "p1".into());
    s2.kv.remove("len");
    let st = build(&s2);
    let items = st.items();
    let parse_t = |s: &str| -> M9 {
        let v: Vec<f64> = s.split(':').map(parse_f).collect();
        let (c, sn) = (v[0].cos(), v[0].sin());
        if v.len() > 3 && v[3] != 0. {
            // rotation followed by the mirror x -> -x
            [-c, sn, v[1], sn, c, v[2], 0., 0., 1.]
        } else {
            [c, -sn, v[1], sn, c, v[2], 0., 0., 1.]
        }
    };
    let mut t1 = parse_t(spec.get("t1"));
    let mut t2 = parse_t(spec.get("t2"));
    let plain_ab = st.impl_intersects(&t1, &t2);
    let plain_sep = separation(&items, &t1, &t2).unwrap_or(f64::NAN);
    if let Some(c) = spec.kv.get("common") {
        let g = parse_t(c);
        let compose = |g: &M9, t: &M9| -> M9 {
            [
                g[0] * t[0] + g[1] * t[3], g[0] * t[1] + g[1] * t[4], g[0] * t[2] + g[1] * t[5] + g[2],
                g[3] * t[0] + g[4] * t[3], g[3] * t[1] + g[4] * t[4], g[3] * t[2] + g[4] * t[5] + g[5],
                0., 0., 1.,
            ]
        };
        t1 = compose(&g, &t1);
        t2 = compose(&g, &t2);
    }
    let ab = st.impl_intersects(&t1, &t2);
    let ba = st.impl_intersects(&t2, &t1);
    let sep = separation(&items, &t1, &t2).unwrap_or(f64::NAN);
    writeln!(out, "K {}", spec.text).unwrap();
    // the crate's own composition of transforms (Transform2 * Transform2) on these operands, mirrors on either
    // side: recorded for the model's matrix product, and compared here with the product formed by hand
    {
        let o1 = parse_t(spec.get("t1"));
        let o2 = parse_t(spec.get("t2"));
        let mut pairs: Vec<(M9, M9)> = vec![(o1, o2), (o2, o1)];
        if let Some(c) = spec.kv.get("common") {
            let g = parse_t(c);
            pairs.push((g, o1));
            pairs.push((g, o2));
            pairs.push((o2, g));
        }
        for (l, r) in pairs.iter() {
            let p: nalgebra::Matrix3<f64> = (tf_of(l) * tf_of(r)).into();
            let got: M9 = [p[(0, 0)], p[(0, 1)], p[(0, 2)], p[(1, 0)], p[(1, 1)], p[(1, 2)], p[(2, 0)], p[(2, 1)], p[(2, 2)]];
            writeln!(out, "U {} {} {}", hex9(l), hex9(r), hex9(&got)).unwrap();
            let want = [
                l[0] * r[0] + l[1] * r[3], l[0] * r[1] + l[1] * r[4], l[0] * r[2] + l[1] * r[5] + l[2],
                l[3] * r[0] + l[4] * r[3], l[3] * r[1] + l[4] * r[4], l[3] * r[2] + l[4] * r[5] + l[5],
                0., 0., 1.,
            ];
            let scale = 1. + l[2].abs().max(l[5].abs()).max(r[2].abs()).max(r[5].abs());
            if (0..9).any(|k| !((got[k] - want[k]).abs() <= 1e-12 * scale)) {
                add(&mut f, "C12,C04,C14", format!(
                    "Transform2 * Transform2 is not the composition of its operands: {:?} * {:?} gives {:?}, the product of the matrices is {:?}",
                    &l[..6], &r[..6], &got[..6], &want[..6]));
            }
        }
    }
    match &items {
        Items::Segs(v) => {
            writeln!(out, "P {}", v.len()).unwrap();
            for i in v {
                writeln!(out, "I {} {} {} {}", hex(i[0]), hex(i[1]), hex(i[2]), hex(i[3])).unwrap();
            }
        }
        Items::Discs(v) => {
            writeln!(out, "M {}", v.len()).unwrap();
            for i in v {
                writeln!(out, "I {} {} {}", hex(i[0]), hex(i[1]), hex(i[2])).unwrap();
            }
        }
        _ => {}
    }
    let b2s = |b: Option<bool>| match b {
        Some(true) => "1",
        Some(false) => "0",
        None => "-",
    };
    writeln!(out, "X {} {} {} {} {}", hex9(&t1), hex9(&t2), b2s(ab), b2s(ba), hex(sep)).unwrap();
    writeln!(out, "E").unwrap();
    let convex = match &items {
        Items::Segs(s) => is_convex(&s.iter().map(|i| (i[0], i[1])).collect::<Vec<_>>()),
        _ => true,
    };
    if let (Some(ab), Some(ba)) = (ab, ba) {
        if convex && sep.is_finite() {
            if !ab && sep < -1e-9 {
                let cls = match &items {
                    Items::Segs(s) if only_vertex_crossings(&poly_vertices(s, &t1), &poly_vertices(s, &t2)) => " [class=vertex-only-crossings]",
                    _ => "",
                };
                add(&mut f, "C12", format!("two copies overlapping by {:e} are reported as not intersecting{}", -sep, cls));
            }
            let class = match &items {
                Items::Segs(s) if has_collinear_edges(&poly_vertices(s, &t1), &poly_vertices(s, &t2)) => " [class=collinear-edges]",
                _ => "",
            };
            if ab && sep > 1e-9 {
                add(&mut f, "C12", format!("two copies separated by {:e} are reported as intersecting{}", sep, class));
            }
            if let Some(p) = plain_ab {
                if p != ab && sep.abs() > 1e-9 && plain_sep.abs() > 1e-9 {
                    add(&mut f, "C12", format!(
                        "the answer changes from {} to {} when both copies are moved by a common rigid motion/reflection (separation {:e}){}", p, ab, sep,
                        match &items {
                            // the wrong one of the two answers is "yes" when the copies are separated, "no" when they overlap
                            Items::Segs(s) if sep > 0. && has_collinear_edges(&poly_vertices(s, &t1), &poly_vertices(s, &t2)) => " [class=collinear-edges]",
                            Items::Segs(s) if sep < 0. && only_vertex_crossings(&poly_vertices(s, &t1), &poly_vertices(s, &t2)) => " [class=vertex-only-crossings]",
                            _ => "",
                        }));
                }
            }
            if ab != ba && sep.abs() > 1e-9 {
                add(&mut f, "C12", format!("intersects(a,b) = {} but intersects(b,a) = {} (separation {:e})", ab, ba, sep));
            }
        }
    }
    GeomOut { findings: f, meta: format!("pair=true ab={:?} sep={:e} convex={}", ab, sep, convex) }
}

/// C13: two LJ particles.  spec: mode=lj2 s1= e1= c1=(-|x) s2= e2= c2= r= [th= common=phi:x:y:mirror]
pub fn run_lj2_case(spec: &Spec, out: &mut dyn Write) -> GeomOut {
    use packing::traits::Potential as _;
    let mut f: Vec<Finding> = vec![];
    let (s1, e1, c1) = (spec.f("s1"), spec.f("e1"), spec.fo("c1"));
    let (s2, e2, c2) = (spec.f("s2"), spec.f("e2"), spec.fo("c2"));
    let r = spec.f("r");
    let th = spec.fo("th").unwrap_or(0.);
    let mk = |x: f64, y: f64, sg: f64, ep: f64, c: Option<f64>| packing::LJ2 { position: nalgebra::Point2::new(x, y), sigma: sg, epsilon: ep, cutoff: c };
    let (p1, p2) = ((0.3, -0.2), (0.3 + r * th.cos(), -0.2 + r * th.sin()));
    let a = mk(p1.0, p1.1, s1, e1, c1);
    let b = mk(p2.0, p2.1, s2, e2, c2);
    let eab = a.energy(&b);
    let eba = b.energy(&a);
    // the law: 4 eps ((sigma/r)^12 - (sigma/r)^6), shifted to zero at the cutoff, zero beyond it
    let rr = ((p1.0 - p2.0).powi(2) + (p1.1 - p2.1).powi(2)).sqrt();
    let law = |sg: f64, ep: f64, c: Option<f64>| -> f64 {
        let v = |d: f64| 4. * ep * ((sg / d).powf(12.) - (sg / d).powf(6.));
        match c {
            Some(c) if rr >= c => 0.,
            Some(c) => v(rr) - v(c),
            None => v(rr),
        }
    };
    let want = law(s1, e1, c1);
    let near_cut = c1.map(|c| (rr - c).abs() < 1e-9 * c).unwrap_or(false);
    let tol = |w: f64| 1e-9 * (1. + w.abs());
    if eab.is_finite() && want.is_finite() && !near_cut && (eab - want).abs() > tol(want) {
        add(&mut f, "C13", format!("energy at distance {:?} (sigma {:?}, eps {:?}, cutoff {:?}) is {:?}, the shifted truncated 12-6 law gives {:?}", rr, s1, e1, c1, eab, want));
    }
    if let Some(c) = c1 {
        if rr > c * (1. + 1e-12) && eab != 0. {
            add(&mut f, "C13", format!("energy {:?} beyond the cutoff {:?} at distance {:?}", eab, c, rr));
        }
    }
    let like = s1 == s2 && e1 == e2 && c1 == c2;
    if eab.is_finite() && eba.is_finite() && (eab - eba).abs() > tol(eab) {
        add(&mut f, "C13", format!(
            "energy(a,b) = {:?} but energy(b,a) = {:?} at distance {:?}{}", eab, eba, rr,
            if like { "" } else { " [class=unlike-parameters]" }));
    }
    if c1.is_none() && e1 >= 0. && eab.is_finite() && eab < -e1 * (1. + 1e-12) - 1e-300 {
        add(&mut f, "C13", format!("energy {:?} below the minimum -eps = {:?}", eab, -e1));
    }
    // the same pair far from the origin (far=T: both particles moved by (T, -T)): the energy depends on the separation the
    // coordinates actually have there, however large the coordinates are
    if let Some(tt) = spec.fo("far") {
        let (q1, q2) = ((p1.0 + tt, p1.1 - tt), (p2.0 + tt, p2.1 - tt));
        let (a3, b3) = (mk(q1.0, q1.1, s1, e1, c1), mk(q2.0, q2.1, s2, e2, c2));
        let e3 = a3.energy(&b3);
        let r3 = ((q1.0 - q2.0).powi(2) + (q1.1 - q2.1).powi(2)).sqrt();
        let v3 = |d: f64| 4. * e1 * ((s1 / d).powf(12.) - (s1 / d).powf(6.));
        let want3 = match c1 {
            Some(c) if r3 >= c => 0.,
            Some(c) => v3(r3) - v3(c),
            None => v3(r3),
        };
        let near3 = c1.map(|c| (r3 - c).abs() < 1e-9 * c).unwrap_or(false);
        // (the two terms of a shifted potential cancel near the cutoff: the tolerance follows their size)
        let mag3 = v3(r3).abs() + c1.map(|c| v3(c).abs()).unwrap_or(0.) + 4. * e1.abs() * (s1 / r3).powf(12.);
        if r3 > 0. && e3.is_finite() && want3.is_finite() && !near3 && (e3 - want3).abs() > 1e-9 * (1. + want3.abs()) + 1e-11 * mag3 {
            add(&mut f, "C13", format!(
                "two particles {:e} from the origin, {:?} apart (sigma {:?}, eps {:?}, cutoff {:?}): energy {:?}, the shifted truncated 12-6 law gives {:?}",
                tt, r3, s1, e1, c1, e3, want3));
        }
        if r3 > 0. && want3.is_finite() && !near3 && !e3.is_finite() {
            add(&mut f, "C13", format!("two particles {:e} from the origin, {:?} apart: energy {:?}, the law gives {:?}", tt, r3, e3, want3));
        }
    }
    // invariance under a common rigid motion / reflection
    if let Some(c) = spec.kv.get("common") {
        let v: Vec<f64> = c.split(':').map(parse_f).collect();
        let (cs, sn) = (v[0].cos(), v[0].sin());
        let m: M9 = if v[3] != 0. { [-cs, sn, v[1], sn, cs, v[2], 0., 0., 1.] } else { [cs, -sn, v[1], sn, cs, v[2], 0., 0., 1.] };
        let t = tf_of(&m);
        let (a2, b2) = (&a * &t, &b * &t);
        let e2v = a2.energy(&b2);
        if eab.is_finite() && e2v.is_finite() && !near_cut && (eab - e2v).abs() > 1e-9 * (1. + eab.abs()) * (1. + (s1 / rr).powi(12)).max(1.) * 1e-3 + tol(eab) {
            add(&mut f, "C13", format!("energy changes from {:?} to {:?} under a common rigid motion", eab, e2v));
        }
        if a2.sigma != s1 || a2.epsilon != e1 || a2.cutoff != c1 {
            add(&mut f, "C13", "a transformed particle does not keep sigma / epsilon / cutoff".into());
        }
    }
    writeln!(out, "K {}", spec.text).unwrap();
    writeln!(out, "Z {} {} {} {} {} {} {} {} {} {} {} {}", hex(p1.0), hex(p1.1), hex(s1), hex(e1), hexo(c1), hex(p2.0), hex(p2.1), hex(s2), hex(e2), hexo(c2), hex(eab), hex(eba)).unwrap();
    writeln!(out, "E").unwrap();
    GeomOut { findings: f, meta: format!("lj2=true like={} inside={}", like, c1.map(|c| rr < c).unwrap_or(true)) }
}

/// mode=order (C09, C10): three variants of one state (cell length moved by `dlen=i:j:k` ulps, site x by
/// `dx=i:j:k` ulps) - the order on the states must be the order of their scores, and `max` must not depend
/// on how the three are combined.  Emits the scores and every comparison for the model.
fn order_case<S>(st: &S, spec: &Spec, out: &mut dyn Write) -> GeomOut
where
    S: State + serde::Serialize + serde::de::DeserializeOwned,
{
    let mut f: Vec<Finding> = vec![];
    let ul = |x: f64, d: i64| -> f64 { f64::from_bits((x.to_bits() as i64 + if x >= 0. { d } else { -d }) as u64) };
    let parse3 = |k: &str| -> Vec<i64> {
        spec.kv.get(k).map(|v| v.split(':').map(|t| t.parse().unwrap()).collect()).unwrap_or(vec![0, 0, 0])
    };
    let (dl, dx) = (parse3("dlen"), parse3("dx"));
    let base = serde_json::to_value(st).unwrap();
    let mut vars: Vec<S> = vec![];
    for i in 0..3 {
        let mut v = base.clone();
        let l = v["cell"]["length"].as_f64().unwrap();
        let x = v["occupied_sites"][0]["x"].as_f64().unwrap();
        v["cell"]["length"] = json!(ul(l, dl[i]));
        v["occupied_sites"][0]["x"] = json!(ul(x, dx[i]));
        vars.push(serde_json::from_value(v).expect("variant"));
    }
    let sc: Vec<Option<f64>> = vars.iter().map(|s| s.score()).collect();
    let ident = |s: &S| -> usize {
        let v = serde_json::to_value(s).unwrap();
        let key = |v: &Value| (v["cell"]["length"].as_f64().unwrap().to_bits(), v["occupied_sites"][0]["x"].as_f64().unwrap().to_bits());
        let k = key(&v);
        // the LAST variant with this identity (identical variants are interchangeable)
        (0..3).rev().find(|&i| key(&serde_json::to_value(&vars[i]).unwrap()) == k).unwrap_or(9)
    };
    let code = |o: Option<std::cmp::Ordering>| match o {
        Some(std::cmp::Ordering::Less) => 'L',
        Some(std::cmp::Ordering::Equal) => 'E',
        Some(std::cmp::Ordering::Greater) => 'G',
        None => 'N',
    };
    let mut cmps = String::new();
    let mut eqs = String::new();
    for i in 0..3 {
        for j in 0..3 {
            let c = code(vars[i].partial_cmp(&vars[j]));
            let e = vars[i] == vars[j];
            cmps.push(c);
            eqs.push(if e { '1' } else { '0' });
            // the property itself: the order on states is the order of their scores
            let want = match (sc[i], sc[j]) {
                (Some(a), Some(b)) => code(a.partial_cmp(&b)),
                _ => 'N',
            };
            let want_eq = match (sc[i], sc[j]) {
                (Some(a), Some(b)) => a == b,
                _ => false,
            };
            if c != want || e != want_eq {
                add(&mut f, "C09,C10", format!(
                    "states with scores {:?} and {:?} compare as {} (==: {}), their scores as {} (==: {})",
                    sc[i], sc[j], c, e, want, want_eq));
            }
        }
    }
    let all_defined = sc.iter().all(|s| s.map(|x| !x.is_nan()).unwrap_or(false));
    let idx = |r: std::thread::Result<S>| -> String { match r { Ok(s) => ident(&s).to_string(), Err(_) => "P".into() } };
    let (a, b, c) = (vars[0].clone(), vars[1].clone(), vars[2].clone());
    let left = idx(std::panic::catch_unwind(std::panic::AssertUnwindSafe(|| std::cmp::max(std::cmp::max(a.clone(), b.clone()), c.clone()))));
    let right = idx(std::panic::catch_unwind(std::panic::AssertUnwindSafe(|| std::cmp::max(a.clone(), std::cmp::max(b.clone(), c.clone())))));
    let iter = idx(std::panic::catch_unwind(std::panic::AssertUnwindSafe(|| vars.iter().cloned().max().unwrap())));
    if all_defined {
        let best = sc.iter().map(|s| s.unwrap()).fold(f64::NEG_INFINITY, f64::max);
        for (name, r) in [("max(max(a,b),c)", &left), ("max(a,max(b,c))", &right), ("iter().max()", &iter)] {
            match r.parse::<usize>() {
                Ok(i) if i < 3 => {
                    if sc[i].unwrap() != best {
                        add(&mut f, "C09,C10", format!("{} returns the variant scoring {:?}, the best of {:?} is {:?}", name, sc[i].unwrap(), sc, best));
                    }
                }
                _ => add(&mut f, "C09,C10", format!("{} on three scored states did not return one of them ({})", name, r)),
            }
        }
        if left != right || left != iter {
            add(&mut f, "C09", format!("the reduction depends on how the replicas are combined: left {} right {} iterator {} (scores {:?})", left, right, iter, sc));
        }
    }
    writeln!(out, "K {}", spec.text).unwrap();
    writeln!(out, "O {} {} {} {} {} {} {} {}", sc[0].map(hex).unwrap_or("N".into()), sc[1].map(hex).unwrap_or("N".into()),
             sc[2].map(hex).unwrap_or("N".into()), cmps, eqs, left, right, iter).unwrap();
    writeln!(out, "E").unwrap();
    let distinct = { let mut v: Vec<u64> = sc.iter().flatten().map(|x| x.to_bits()).collect(); v.sort(); v.dedup(); v.len() };
    GeomOut { findings: f, meta: format!("order=true defined={} distinct_scores={}", all_defined, distinct) }
}

pub fn run_order_case(spec: &Spec, out: &mut dyn Write) -> GeomOut {
    let st = build(spec);
    // C09: the score of a state does not depend on what was scored before on this thread
    let hist = st.reshape_then_score();
    let mut o = match &st {
        St::Poly(s) => order_case(s, spec, out),
        St::Mol(s) => order_case(s, spec, out),
        St::Lj(s) => order_case(s, spec, out),
    };
    // states of the SAME shape in DIFFERENT groups (other copy counts, other cells): ranked by their scores too
    if let Some(g2) = spec.kv.get("group2") {
        let mut s2 = spec.clone();
        s2.kv.insert("group".into(), g2.clone());
        if let Some(l2) = spec.kv.get("len2") {
            s2.kv.insert("len".into(), l2.clone());
        }
        s2.kv.insert("angle".into(), fmt_f(PI / 2.));
        if let Ok(st2) = catch_unwind(AssertUnwindSafe(|| build(&s2))) {
            let code = |o: Option<std::cmp::Ordering>| match o {
                Some(std::cmp::Ordering::Less) => 'L',
                Some(std::cmp::Ordering::Equal) => 'E',
                Some(std::cmp::Ordering::Greater) => 'G',
                None => 'N',
            };
            let (c12, c21) = match (&st, &st2) {
                (St::Poly(a), St::Poly(b)) => (code(a.partial_cmp(b)), code(b.partial_cmp(a))),
                (St::Mol(a), St::Mol(b)) => (code(a.partial_cmp(b)), code(b.partial_cmp(a))),
                (St::Lj(a), St::Lj(b)) => (code(a.partial_cmp(b)), code(b.partial_cmp(a))),
                _ => ('?', '?'),
            };
            let (sa, sb) = (st.score(), st2.score());
            let want = |x: Option<f64>, y: Option<f64>| match (x, y) {
                (Some(a), Some(b)) => code(a.partial_cmp(&b)),
                _ => 'N',
            };
            if c12 != '?' && (c12 != want(sa, sb) || c21 != want(sb, sa)) {
                o.findings.push(Finding { property: "C02,C09,C10", what: format!(
                    "a {} state scoring {:?} and a {} state of the same shape scoring {:?} compare as {} / {}, their scores as {} / {}",
                    spec.get("group"), sa, g2, sb, c12, c21, want(sa, sb), want(sb, sa)) });
            }
        }
    }
    if let Some((a, b)) = hist {
        let same = match (a, b) {
            (Some(x), Some(y)) => x.to_bits() == y.to_bits() || (x.is_nan() && y.is_nan()),
            (None, None) => true,
            _ => false,
        };
        if !same {
            o.findings.push(Finding { property: "C09", what: format!(
                "a state that was scored, then given another shape, scores {:?}; the state rebuilt from its own JSON scores {:?} (the result depends on what ran before)", a, b) });
        }
    }
    return o;
    #[allow(unreachable_code)]
    match &st {
        St::Poly(s) => order_case(s, spec, out),
        St::Mol(s) => order_case(s, spec, out),
        St::Lj(s) => order_case(s, spec, out),
    }
}

/// mode=ljm (C13): the energy of two DIFFERENT Lennard-Jones molecules, both ways, against the sum over their
/// particle pairs.  spec: a=circle|trimer:r:ang:d b=... t1=phi:x:y:mirror t2=...
pub fn run_ljm_case(spec: &Spec, out: &mut dyn Write) -> GeomOut {
    use packing::traits::Potential as _;
    let mut f: Vec<Finding> = vec![];
    let mk = |s: &str| -> LJShape2 {
        let p: Vec<&str> = s.split(':').collect();
        if p[0] == "circle" { LJShape2::circle() } else { LJShape2::from_trimer(parse_f(p[1]), parse_f(p[2]), parse_f(p[3])) }
    };
    let parse_t = |s: &str| -> M9 {
        let v: Vec<f64> = s.split(':').map(parse_f).collect();
        let (c, sn) = (v[0].cos(), v[0].sin());
        if v.len() > 3 && v[3] != 0. { [-c, sn, v[1], sn, c, v[2], 0., 0., 1.] } else { [c, -sn, v[1], sn, c, v[2], 0., 0., 1.] }
    };
    let a = mk(spec.get("a")).transform(&tf_of(&parse_t(spec.get("t1"))));
    let b = mk(spec.get("b")).transform(&tf_of(&parse_t(spec.get("t2"))));
    let (eab, eba) = (a.energy(&b), b.energy(&a));
    // the pair sums, with the particle energy of the crate itself
    let pair = |x: &LJShape2, y: &LJShape2| -> (f64, f64) {
        let (mut s, mut m) = (0., 0.);
        for p in x.items.iter() {
            for q in y.items.iter() {
                let e = p.energy(q);
                s += e;
                m += e.abs();
            }
        }
        (s, m)
    };
    for (name, got, (want, mag)) in [("energy(a,b)", eab, pair(&a, &b)), ("energy(b,a)", eba, pair(&b, &a))].iter() {
        if got.is_finite() && want.is_finite() && (got - want).abs() > 1e-9 * (1. + mag) {
            add(&mut f, "C13,C03", format!("{} of two molecules is {:?}, the sum over their particle pairs is {:?}", name, got, want));
        }
    }
    // a common rigid motion / reflection of the two PLACED molecules: every particle goes where the motion takes it,
    // and the energy does not change
    if let Some(c) = spec.kv.get("common") {
        let gm = parse_t(c);
        let (a2, b2) = (a.transform(&tf_of(&gm)), b.transform(&tf_of(&gm)));
        for (name, before, after) in [("a", &a, &a2), ("b", &b, &b2)].iter() {
            for (p, q) in before.items.iter().zip(after.items.iter()) {
                let want = apply(&gm, (p.position.x, p.position.y));
                let scale = 1. + want.0.abs().max(want.1.abs());
                if !((q.position.x - want.0).abs() <= 1e-12 * scale && (q.position.y - want.1).abs() <= 1e-12 * scale) {
                    add(&mut f, "C13,C03", format!(
                        "a particle of placed molecule {} at ({:?}, {:?}) is moved to ({:?}, {:?}) by a rigid motion that takes that point to ({:?}, {:?})",
                        name, p.position.x, p.position.y, q.position.x, q.position.y, want.0, want.1));
                    break;
                }
            }
        }
        let e2 = a2.energy(&b2);
        let (_, mag) = pair(&a, &b);
        if eab.is_finite() && e2.is_finite() && (eab - e2).abs() > 1e-7 * (1. + mag) {
            add(&mut f, "C13", format!("the energy of two placed molecules changes from {:?} to {:?} under a common rigid motion", eab, e2));
        }
    }
    writeln!(out, "K {}", spec.text).unwrap();
    writeln!(out, "W {} {} {} {}", a.items.len(), b.items.len(), hex(eab), hex(eba)).unwrap();
    for (tag, sh) in [("A", &a), ("B", &b)].iter() {
        for i in sh.items.iter() {
            writeln!(out, "{} {} {} {} {} {}", tag, hex(i.position.x), hex(i.position.y), hex(i.sigma), hex(i.epsilon), hexo(i.cutoff)).unwrap();
        }
    }
    writeln!(out, "E").unwrap();
    GeomOut { findings: f, meta: format!("ljm=true pair=true na={} nb={}", a.items.len(), b.items.len()) }
}

pub fn run_case(spec: &Spec, out: &mut dyn Write) -> GeomOut {
    match spec.get_or("mode", "state") {
        "ljm" => run_ljm_case(spec, out),
        "order" => run_order_case(spec, out),
        "pair" => run_pair_case(spec, out),
        "lj2" => run_lj2_case(spec, out),
        _ => run_state_case(spec, out),
    }
}
