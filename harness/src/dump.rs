// dump.rs - tie #1: runs the crate's own constructors and prints what they produce, as JSON.
// bin/gen.py turns this into coq/gen/*.v, which the theorems are re-checked against on every run.
use std::str::FromStr;

use serde_json::{json, Value};

use packing::traits::{Basis, State, ToSVG};
use packing::wallpaper::{get_wallpaper_group, WallpaperGroups, WyckoffSite};
use packing::{LJShape2, LineShape, MolecularShape2, PackedState, PotentialState, Transform2};

use crate::common::*;

fn leaves(prefix: &str, v: &Value, out: &mut Vec<(String, Value)>) {
    match v {
        Value::Object(m) => {
            for (k, x) in m.iter() {
                leaves(&format!("{}/{}", prefix, k), x, out);
            }
        }
        Value::Array(a) => {
            for (i, x) in a.iter().enumerate() {
                leaves(&format!("{}/{}", prefix, i), x, out);
            }
        }
        x => out.push((prefix.to_string(), x.clone())),
    }
}

/// key tree in emission order: object keys as serde emits them (serde_json `preserve_order` is not
/// enabled in the crate, so Value sorts keys; the emission order is taken from the text instead)
fn key_order(text: &str) -> Vec<String> {
    // every `"key":` in order of appearance, with nesting depth
    let mut out = vec![];
    let bytes = text.as_bytes();
    let mut depth = 0i32;
    let mut i = 0;
    while i < bytes.len() {
        match bytes[i] {
            b'{' | b'[' => depth += 1,
            b'}' | b']' => depth -= 1,
            b'"' => {
                let mut j = i + 1;
                while j < bytes.len() && bytes[j] != b'"' {
                    if bytes[j] == b'\\' {
                        j += 1;
                    }
                    j += 1;
                }
                if j + 1 < bytes.len() && bytes[j + 1] == b':' {
                    out.push(format!("{}:{}", depth, &text[i + 1..j]));
                }
                i = j;
            }
            _ => {}
        }
        i += 1;
    }
    out
}

fn probe_state<S: State>(state: &S) -> Value {
    let text0 = serde_json::to_string(state).unwrap();
    let v0: Value = serde_json::to_value(state).unwrap();
    let mut l0 = vec![];
    leaves("", &v0, &mut l0);
    let mut handles = vec![];
    let n = state.generate_basis().len();
    for i in 0..n {
        let mut basis = state.generate_basis();
        let h = &mut basis[i];
        let cur = h.get_value();
        h.set_value(f64::NEG_INFINITY);
        let lo = h.get_value();
        h.reset_value();
        h.set_value(f64::INFINITY);
        let hi = h.get_value();
        h.reset_value();
        // which serialised leaf does this handle move?
        let probe = lo + (hi - lo) * 0.372_549_019_607_843_1 + 1e-3;
        h.set_value(probe);
        let got = h.get_value();
        let v1: Value = serde_json::to_value(state).unwrap();
        h.reset_value();
        let mut l1 = vec![];
        leaves("", &v1, &mut l1);
        let changed: Vec<String> = l0
            .iter()
            .zip(l1.iter())
            .filter(|(a, b)| a.1 != b.1)
            .map(|(a, _)| a.0.clone())
            .collect();
        let back = state.generate_basis()[i].get_value();
        handles.push(json!({
            "index": i, "value": hex(cur), "min": hex(lo), "max": hex(hi),
            "moves": changed, "probe_ok": got == probe || lo == hi, "restored": back.to_bits() == cur.to_bits(),
        }));
    }
    json!({
        "handles": handles,
        "json_keys": key_order(&text0),
        "leaves": l0.iter().map(|(k, v)| json!([k, v])).collect::<Vec<_>>(),
        "score": state.score().map(hex),
        "total_shapes": state.total_shapes(),
    })
}

fn matrix_of(t: &Transform2) -> Vec<String> {
    let m: nalgebra::Matrix3<f64> = (*t).into();
    let mut v = vec![];
    for r in 0..3 {
        for c in 0..3 {
            v.push(hex(m[(r, c)]));
        }
    }
    v
}

pub fn dump() -> Value {
    let mut groups = vec![];
    for name in WallpaperGroups::variants().iter() {
        // (a site built from a group that fails to parse must leave nothing behind for the next one)
        crate::opt::failed_group_before();
        let g = get_wallpaper_group(WallpaperGroups::from_str(name).unwrap()).unwrap();
        let site = WyckoffSite::new(&g);
        let (ops, err): (Vec<Vec<String>>, Option<String>) = match &site {
            Ok(s) => (s.symmetries.iter().map(matrix_of).collect(), None),
            Err(e) => (vec![], Some(format!("{}", e))),
        };
        let mut states = serde_json::Map::new();
        let hard = PackedState::from_group(LineShape::polygon(4).unwrap(), &g).unwrap();
        states.insert("hard_polygon4".into(), probe_state(&hard));
        let hardc = PackedState::from_group(MolecularShape2::circle(), &g).unwrap();
        states.insert("hard_circle".into(), probe_state(&hardc));
        let hardt = PackedState::from_group(MolecularShape2::from_trimer(0.637556, 120., 1.), &g).unwrap();
        states.insert("hard_trimer".into(), probe_state(&hardt));
        let lj = PotentialState::from_group(LJShape2::circle(), &g).unwrap();
        states.insert("lj_circle".into(), probe_state(&lj));
        let ljt = PotentialState::from_group(LJShape2::from_trimer(0.637556, 120., 1.), &g).unwrap();
        states.insert("lj_trimer".into(), probe_state(&ljt));
        // the same states after the cell has shrunk: the ranges a LATER optimisation stage would declare
        // (bounds are re-derived from the current values at each stage)
        {
            let shrink = |st: &dyn Fn() -> Value| st();
            let _ = shrink;
            macro_rules! shrunk {
                ($name:expr, $st:expr) => {{
                    let st = $st;
                    {
                        let mut b = st.generate_basis();
                        let l = b[0].get_value();
                        b[0].set_value(l * 0.8125);
                        b[1].set_value(0.4375);
                    }
                    states.insert(format!("{}@shrunk", $name), probe_state(&st));
                }};
            }
            shrunk!("hard_polygon4", PackedState::from_group(LineShape::polygon(4).unwrap(), &g).unwrap());
            shrunk!("hard_circle", PackedState::from_group(MolecularShape2::circle(), &g).unwrap());
            shrunk!("hard_trimer", PackedState::from_group(MolecularShape2::from_trimer(0.637556, 120., 1.), &g).unwrap());
            shrunk!("lj_circle", PotentialState::from_group(LJShape2::circle(), &g).unwrap());
            shrunk!("lj_trimer", PotentialState::from_group(LJShape2::from_trimer(0.637556, 120., 1.), &g).unwrap());
        }
        // ... and the same states loaded from a file with a side ratio ABOVE one (valid: the ranges are relative
        // to the current values)
        {
            macro_rules! wide {
                ($name:expr, $st:expr, $t:ty) => {{
                    let mut v = serde_json::to_value(&$st).unwrap();
                    v["cell"]["ratio"] = json!(1.75);
                    let st: $t = serde_json::from_value(v).unwrap();
                    states.insert(format!("{}@wide", $name), probe_state(&st));
                }};
            }
            wide!("hard_polygon4", PackedState::from_group(LineShape::polygon(4).unwrap(), &g).unwrap(), PackedState<LineShape>);
            wide!("hard_circle", PackedState::from_group(MolecularShape2::circle(), &g).unwrap(), PackedState<MolecularShape2>);
            wide!("hard_trimer", PackedState::from_group(MolecularShape2::from_trimer(0.637556, 120., 1.), &g).unwrap(), PackedState<MolecularShape2>);
            wide!("lj_circle", PotentialState::from_group(LJShape2::circle(), &g).unwrap(), PotentialState<LJShape2>);
            wide!("lj_trimer", PotentialState::from_group(LJShape2::from_trimer(0.637556, 120., 1.), &g).unwrap(), PotentialState<LJShape2>);
        }
        // ... and with the cell declared hexagonal / tetragonal (library / file states): only the length may move
        {
            macro_rules! fam {
                ($name:expr, $st:expr, $t:ty, $fam:expr, $angle:expr) => {{
                    let mut v = serde_json::to_value(&$st).unwrap();
                    v["cell"]["family"] = json!($fam);
                    v["cell"]["angle"] = json!($angle);
                    v["cell"]["ratio"] = json!(1.0);
                    let st: $t = serde_json::from_value(v).unwrap();
                    states.insert(format!("{}@{}", $name, if $fam == "Hexagonal" { "hex" } else { "tet" }), probe_state(&st));
                }};
            }
            fam!("hard_circle", PackedState::from_group(MolecularShape2::circle(), &g).unwrap(), PackedState<MolecularShape2>, "Hexagonal", std::f64::consts::FRAC_PI_3);
            fam!("hard_circle", PackedState::from_group(MolecularShape2::circle(), &g).unwrap(), PackedState<MolecularShape2>, "Tetragonal", std::f64::consts::FRAC_PI_2);
            fam!("lj_trimer", PotentialState::from_group(LJShape2::from_trimer(0.637556, 120., 1.), &g).unwrap(), PotentialState<LJShape2>, "Hexagonal", std::f64::consts::FRAC_PI_3);
            fam!("lj_trimer", PotentialState::from_group(LJShape2::from_trimer(0.637556, 120., 1.), &g).unwrap(), PotentialState<LJShape2>, "Tetragonal", std::f64::consts::FRAC_PI_2);
        }
        // ... and with the site's (otherwise unused) rotation count set to other values, as a file can: the declared
        // ranges do not depend on it
        {
            macro_rules! rot {
                ($name:expr, $st:expr, $t:ty, $n:expr) => {{
                    let mut v = serde_json::to_value(&$st).unwrap();
                    if let Some(sites) = v["occupied_sites"].as_array_mut() {
                        for s in sites.iter_mut() {
                            s["wyckoff"]["num_rotations"] = json!($n);
                        }
                    }
                    let st: $t = serde_json::from_value(v).unwrap();
                    states.insert(format!("{}@rot{}", $name, $n), probe_state(&st));
                }};
            }
            rot!("hard_trimer", PackedState::from_group(MolecularShape2::from_trimer(0.637556, 120., 1.), &g).unwrap(), PackedState<MolecularShape2>, 0);
            rot!("hard_trimer", PackedState::from_group(MolecularShape2::from_trimer(0.637556, 120., 1.), &g).unwrap(), PackedState<MolecularShape2>, 3);
            rot!("lj_circle", PotentialState::from_group(LJShape2::circle(), &g).unwrap(), PotentialState<LJShape2>, 0);
            rot!("lj_circle", PotentialState::from_group(LJShape2::circle(), &g).unwrap(), PotentialState<LJShape2>, 3);
        }
        groups.push(json!({
            "cli": name, "name": g.name, "family": format!("{:?}", g.family),
            "ops_str": g.wyckoff_str, "ops": ops, "ops_error": err,
            "states": Value::Object(states),
        }));
    }
    // the SVG matrix emitter on a probe transform with six distinct entries
    let probe = Transform2::from(nalgebra::Matrix3::new(2., 3., 5., 7., 11., 13., 0., 0., 1.));
    let svg_text = format!("{}", probe.as_svg());
    // other spellings of the group names (the argument parser is case-insensitive): what each resolves to
    let mut lookups = vec![];
    for name in WallpaperGroups::variants().iter() {
        let upper = name.to_uppercase();
        let capital: String = name.chars().enumerate().map(|(i, c)| if i == 0 { c.to_ascii_uppercase() } else { c }).collect();
        let alternating: String = name.chars().enumerate().map(|(i, c)| if i % 2 == 1 { c.to_ascii_uppercase() } else { c }).collect();
        for sp in [name.to_string(), upper, capital, alternating].iter() {
            let resolved = match WallpaperGroups::from_str(sp) {
                Ok(v) => get_wallpaper_group(v).map(|g| g.name.to_string()).unwrap_or_else(|_| "error".into()),
                Err(_) => "error".into(),
            };
            lookups.push(json!([sp, name, resolved]));
        }
    }
    // the optimiser settings a bare command line and the library default stand for (Debug rendering of the
    // private fields), and how the setters change them: each setter applied to the library default
    use structopt::StructOpt;
    let cli = packing::BuildOptimiser::from_iter_safe(vec!["x"]).map(|b| format!("{:?}", b)).unwrap_or_else(|e| format!("error: {}", e));
    let lib = format!("{:?}", packing::BuildOptimiser::default());
    let set = |f: &dyn Fn(&mut packing::BuildOptimiser)| { let mut b = packing::BuildOptimiser::default(); f(&mut b); format!("{:?}", b) };
    let setters = json!({
        "steps(7)": set(&|b| { b.steps(7); }),
        "inner_steps(7)": set(&|b| { b.inner_steps(7); }),
        "kt_start(0.5)": set(&|b| { b.kt_start(0.5); }),
        "kt_finish(0.5)": set(&|b| { b.kt_finish(0.5); }),
        "kt_ratio(Some(0.5))": set(&|b| { b.kt_ratio(Some(0.5)); }),
        "kt_ratio(None)": set(&|b| { b.kt_ratio(Some(0.5)); b.kt_ratio(None); }),
        "max_step_size(0.5)": set(&|b| { b.max_step_size(0.5); }),
        "convergence(Some(0.5))": set(&|b| { b.convergence(Some(0.5)); }),
        "convergence(None)": set(&|b| { b.convergence(Some(0.5)); b.convergence(None); }),
        "seed(7)": set(&|b| { b.seed(7); }),
    });
    json!({ "groups": groups, "svg_probe": {"matrix_rows": [2,3,5,7,11,13], "text": svg_text},
            "builder_cli": cli, "builder_default": lib, "builder_setters": setters, "name_lookups": lookups })
}
