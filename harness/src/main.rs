// vharness - runs malramsay64/pypacking (the `packing` crate at /repo) on generated or
// recorded cases and prints what the implementation does, for comparison with the
// extracted Coq models, together with the direct monitors of the properties.
mod common;
mod dump;
mod geom;
mod geomgen;
mod opt;
mod optgen;
mod parse;
mod pipe;

use std::io::{BufRead, Write};

use common::*;

fn arg<'a>(args: &'a [String], name: &str) -> Option<&'a str> {
    args.iter().position(|a| a == name).and_then(|i| args.get(i + 1)).map(|s| s.as_str())
}

fn main() {
    // panics of the code under test are outcomes, not noise
    std::panic::set_hook(Box::new(|_| {}));
    let args: Vec<String> = std::env::args().collect();
    let cmd = args.get(1).map(|s| s.as_str()).unwrap_or("");
    match cmd {
        "dump" => {
            println!("{}", serde_json::to_string_pretty(&dump::dump()).unwrap());
        }
        "libm" => {
            // the values the theorems take as premises about the platform's math library (C05 C07 C18)
            let v = [
                f64::exp(f64::NEG_INFINITY), f64::exp(f64::INFINITY), f64::exp(f64::NAN), f64::exp(0.), f64::exp(-0.),
                f64::min(f64::NAN, 1.), f64::min(f64::INFINITY, 1.), f64::max(0., f64::NAN), f64::powf(f64::INFINITY, 0.5),
                f64::powf(0., 0.5), (1.0f64).acos(), (-1.0f64).acos(), f64::sin(0.), f64::cos(0.),
            ];
            println!("{}", v.iter().map(|x| common::hex(*x)).collect::<Vec<_>>().join(" "));
        }
        "pipeline" => {
            let mut o = std::io::stdout();
            pipe::pipeline(&args, &mut o);
        }
        "state-info" => {
            let mut o = std::io::stdout();
            pipe::state_info(&args, &mut o);
        }
        "parse-run" => {
            parse::run(arg(&args, "--cases").expect("--cases"), arg(&args, "--out").expect("--out"));
        }
        "geom-gen" => {
            let focus = arg(&args, "--focus").unwrap_or("C15");
            let seed: u64 = arg(&args, "--seed").unwrap_or("0").parse().unwrap();
            let count: u64 = arg(&args, "--count").unwrap_or("10").parse().unwrap();
            for l in geomgen::gen(focus, seed, count) {
                println!("{}", l);
            }
        }
        "geom-run" => {
            let specs = std::fs::File::open(arg(&args, "--specs").expect("--specs")).expect("specs file");
            let lines: Vec<String> = std::io::BufReader::new(specs).lines().map(|l| l.unwrap()).filter(|l| l.starts_with("geom ")).collect();
            let cases_path = arg(&args, "--cases").expect("--cases").to_string();
            let report_path = arg(&args, "--report").expect("--report").to_string();
            let threads: usize = 16;
            let mut chunks: Vec<Vec<String>> = vec![vec![]; threads];
            for (i, l) in lines.iter().enumerate() {
                chunks[i % threads].push(l.clone());
            }
            // watchdog: a case that does not finish within the deadline is reported and the run ends (a check never hangs)
            let deadline: u64 = std::env::var("VH_CASE_DEADLINE").ok().and_then(|s| s.parse().ok()).unwrap_or(120);
            let current: std::sync::Arc<std::sync::Mutex<Vec<Option<(String, std::time::Instant)>>>> =
                std::sync::Arc::new(std::sync::Mutex::new(vec![None; threads]));
            {
                let current = current.clone();
                let report_path = report_path.clone();
                std::thread::spawn(move || loop {
                    std::thread::sleep(std::time::Duration::from_millis(500));
                    let hung: Option<String> = current.lock().unwrap().iter().flatten()
                        .find(|(_, t)| t.elapsed().as_secs() >= deadline).map(|(l, _)| l.clone());
                    if let Some(l) = hung {
                        let mut rf = std::fs::File::create(&report_path).unwrap();
                        writeln!(rf, "HANG {}", l).unwrap();
                        writeln!(rf, "FINDING * | {} | the case did not finish within {} s (every other case takes milliseconds): scoring or placing this state does not return", l, deadline).unwrap();
                        std::process::exit(0);
                    }
                });
            }
            let handles: Vec<_> = chunks
                .into_iter()
                .enumerate()
                .map(|(ti, chunk)| {
                    let cp = format!("{}.{}", cases_path, ti);
                    let current = current.clone();
                    std::thread::spawn(move || {
                        let mut cf = std::io::BufWriter::new(std::fs::File::create(&cp).unwrap());
                        let mut rep = vec![];
                        for l in chunk {
                            let spec = Spec::parse(&l);
                            let mut buf: Vec<u8> = vec![];
                            current.lock().unwrap()[ti] = Some((l.clone(), std::time::Instant::now()));
                            let r = std::panic::catch_unwind(std::panic::AssertUnwindSafe(|| geom::run_case(&spec, &mut buf)));
                            current.lock().unwrap()[ti] = None;
                            match r {
                                Ok(o) => {
                                    cf.write_all(&buf).unwrap();
                                    rep.push(format!("M {} | {}", l, o.meta));
                                    for f in o.findings {
                                        rep.push(format!("FINDING {} | {} | {}", f.property, l, f.what));
                                    }
                                }
                                Err(e) => {
                                    rep.push(format!("M {} | built=false panic=true", l));
                                    // the pair / particle / molecule / order cases are built from valid shapes and placements only:
                                    // a panic there is the crate's own
                                    let tag = match spec.get_or("mode", "state") {
                                        "pair" => Some("C12"),
                                        "lj2" | "ljm" => Some("C13,C03"),
                                        "order" => Some("C09,C10,C02"),
                                        _ => None,
                                    };
                                    if let Some(tag) = tag {
                                        let msg = e.downcast_ref::<String>().cloned().or_else(|| e.downcast_ref::<&str>().map(|s| s.to_string())).unwrap_or_default();
                                        rep.push(format!("FINDING {} | {} | the crate panicked on valid shapes and placements: {}", tag, l, msg.chars().take(200).collect::<String>()));
                                    }
                                }
                            }
                        }
                        cf.flush().unwrap();
                        rep
                    })
                })
                .collect();
            let mut rf = std::io::BufWriter::new(std::fs::File::create(&report_path).unwrap());
            for h in handles {
                for l in h.join().unwrap() {
                    writeln!(rf, "{}", l).unwrap();
                }
            }
        }
        "opt-gen" => {
            let focus = arg(&args, "--focus").unwrap_or("C06");
            let seed: u64 = arg(&args, "--seed").unwrap_or("0").parse().unwrap();
            let count: u64 = arg(&args, "--count").unwrap_or("10").parse().unwrap();
            for l in optgen::gen(focus, seed, count) {
                println!("{}", l);
            }
        }
        "opt-run" => {
            // --specs <file> --cases <file> --report <file>
            let specs = std::fs::File::open(arg(&args, "--specs").expect("--specs")).expect("specs file");
            let lines: Vec<String> = std::io::BufReader::new(specs)
                .lines()
                .map(|l| l.unwrap())
                .filter(|l| l.starts_with("opt "))
                .collect();
            let cases_path = arg(&args, "--cases").expect("--cases").to_string();
            let report_path = arg(&args, "--report").expect("--report").to_string();
            let threads: usize = arg(&args, "--threads").unwrap_or("16").parse().unwrap();
            let chunks: Vec<Vec<String>> = {
                let mut c = vec![vec![]; threads.max(1)];
                for (i, l) in lines.iter().enumerate() {
                    c[i % threads.max(1)].push(l.clone());
                }
                c
            };
            // watchdog (C20): a case that does not return within the deadline is reported and the run ends
            let deadline: u64 = std::env::var("VH_CASE_DEADLINE").ok().and_then(|s| s.parse().ok()).unwrap_or(120);
            let current: std::sync::Arc<std::sync::Mutex<Vec<Option<(String, std::time::Instant)>>>> =
                std::sync::Arc::new(std::sync::Mutex::new(vec![None; threads.max(1)]));
            {
                let current = current.clone();
                let report_path = report_path.clone();
                std::thread::spawn(move || loop {
                    std::thread::sleep(std::time::Duration::from_millis(500));
                    let hung: Option<String> = current.lock().unwrap().iter().flatten()
                        .find(|(_, t)| t.elapsed().as_secs() >= deadline).map(|(l, _)| l.clone());
                    if let Some(l) = hung {
                        let mut rf = std::fs::File::create(&report_path).unwrap();
                        writeln!(rf, "HANG {}", l).unwrap();
                        writeln!(rf, "FINDING C20 | {} | optimise_state did not return within {} s (every other case returns in milliseconds; the model returns after the configured number of steps)", l, deadline).unwrap();
                        std::process::exit(0);
                    }
                });
            }
            let handles: Vec<_> = chunks
                .into_iter()
                .enumerate()
                .map(|(ti, chunk)| {
                    let cp = format!("{}.{}", cases_path, ti);
                    let current = current.clone();
                    std::thread::spawn(move || {
                        let mut cf = std::io::BufWriter::new(std::fs::File::create(&cp).unwrap());
                        let mut rep = vec![];
                        for l in chunk {
                            let spec = Spec::parse(&l);
                            current.lock().unwrap()[ti] = Some((l.clone(), std::time::Instant::now()));
                            let run = opt::run_case(&spec);
                            current.lock().unwrap()[ti] = None;
                            opt::write_case(&run, &mut cf);
                            let (mut findings, st) = opt::monitor(&run);
                            // C20: with a convergence threshold the run is an exact PREFIX of the run without it (same
                            // proposals, bit for bit, up to where it stops)
                            if spec.kv.get("conv").map(|c| c != "-").unwrap_or(false) && run.outcome == "ok" && !spec.kv.contains_key("reuse") {
                                let twin_text: String = l.split(' ').map(|t| if t.starts_with("conv=") { "conv=-".to_string() } else { t.to_string() }).collect::<Vec<_>>().join(" ");
                                let twin = opt::run_case(&Spec::parse(&twin_text));
                                if twin.outcome == "ok" {
                                    let n = if st.converged_early { run.calls.len() } else { run.calls.len().min(twin.calls.len()) };
                                    let same = |a: f64, b: f64| a.to_bits() == b.to_bits() || (a.is_nan() && b.is_nan());
                                    for k in 0..n.min(twin.calls.len()) {
                                        let (x, y) = (&run.calls[k].vec, &twin.calls[k].vec);
                                        if x.len() != y.len() || x.iter().zip(y.iter()).any(|(a, b)| !same(*a, *b)) {
                                            if findings.len() < 20 {
                                                findings.push(crate::common::Finding { property: "C20", what: format!(
                                                    "with the convergence threshold the run is not a prefix of the run without it: score() call {} sees {:?}, without the threshold {:?}", k, x, y) });
                                            }
                                            break;
                                        }
                                    }
                                    if !st.converged_early && run.calls.len() != twin.calls.len() && findings.len() < 20 {
                                        findings.push(crate::common::Finding { property: "C20", what: format!(
                                            "a run that did not stop early made {} score() calls with the threshold and {} without it", run.calls.len(), twin.calls.len()) });
                                    }
                                }
                            }
                            rep.push(format!(
                                "M {} | outcome={} calls={} steps={} accepts={} rejects={} none={} clamped={} boundary={} loops={} early={} amb={} desync={}",
                                l, run.outcome.split(' ').next().unwrap_or(""), run.calls.len(), st.steps, st.accepts, st.rejects,
                                st.none_scores, st.clamped, st.boundary_decisions, st.loops, st.converged_early, st.ambiguous_end, st.stream_desync
                            ));
                            for f in findings {
                                rep.push(format!("FINDING {} | {} | {}", f.property, l, f.what));
                            }
                        }
                        cf.flush().unwrap();
                        rep
                    })
                })
                .collect();
            let mut rf = std::io::BufWriter::new(std::fs::File::create(&report_path).unwrap());
            for h in handles {
                for l in h.join().unwrap() {
                    writeln!(rf, "{}", l).unwrap();
                }
            }
        }
        _ => {
            eprintln!("usage: vharness <opt-gen|opt-run|...>");
            std::process::exit(2);
        }
    }
}
