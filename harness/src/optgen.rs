// optgen.rs - structured generation of optimiser cases, per property focus.
use crate::common::*;

const GROUPS: [&str; 7] = ["p1", "p2", "p1m1", "p1g1", "p2mm", "p2mg", "p2gg"];

fn settings(g: &mut Sm, focus: &str) -> String {
    // (steps, inner)
    let grid: &[(u64, u64)] = match focus {
        "C20" => &[
            (0, 5), (5, 0), (0, 0), (1, 1), (2, 1), (3, 2), (7, 7), (10, 3), (999, 1000), (1000, 1000),
            (1001, 1000), (2500, 1000), (3000, 7), (60, 5), (400, 20), (2000, 100),
        ],
        "C05" => &[
            (5000, 1000), (3000, 7), (10, 3), (2500, 1000), (400, 20), (2000, 100), (3000, 2), (2200, 1),
            (1000, 1000), (600, 15),
        ],
        "C18" | "C19" => &[
            (5000, 1000), (3000, 7), (10, 3), (2500, 1000), (400, 20), (2000, 100), (10000, 1000), (4000, 100),
            (1000, 1000), (600, 15), (300, 1), (500, 2),
        ],
        _ => &[
            (1000, 1000), (5000, 1000), (3000, 7), (10, 3), (2500, 1000), (999, 1000), (7, 7), (400, 20),
            (2000, 100), (20000, 500),
        ],
    };
    let (steps, inner) = *g.pick(grid);
    let kt_start = match focus {
        "C05" => *g.pick(&[0., 0., 0., 0., -0.0]),
        "C18" => *g.pick(&[0.1, 0.5, 1e-3, 0.05, 2.0, 0., 0.1, 0.5, 1e-3, 0.05, 2.0, 0., -0.0]),
        // C07/C08: an undefined score is never accepted, whatever the temperature - also infinite, NaN, negative
        "C07" | "C08" => *g.pick(&[0.1, 0.5, 1e-3, 0.05, 2.0, 0., f64::INFINITY, f64::NAN, -0.1, 1e300]),
        _ => *g.pick(&[0., 0.1, 0.5, 1e-3, 0.]),
    };
    let kt_finish: Option<f64> = match g.below(4) {
        0 => None,
        _ => Some(*g.pick(&[0., 1e-3, 0.1, 0.01, 1e-5])),
    };
    let kt_ratio: Option<f64> = match (g.below(3), focus) {
        (0, "C05") | (1, "C05") => Some(*g.pick(&[0., 0.1, 0.5, 1., 0.9, 0.01, 1.5, 2., -1., -0.5, -3., 1.0000001,
                                                   f64::NEG_INFINITY, f64::INFINITY, f64::NAN, -1e308, -1.7e308])),
        (0, "C18") => Some(*g.pick(&[0., 0.1, 0.5, 1., 0.9, 0.01, 0., 0.1, 0.5, 1., 0.9, 0.01, 1.5, -1.,
                                      f64::NEG_INFINITY, f64::INFINITY, f64::NAN, -1.7e308])),
        (0, _) => Some(*g.pick(&[0., 0.1, 0.5, 1., 0.9, 0.01])),
        _ => None,
    };
    let max_step = match focus {
        "C19" => *g.pick(&[0.01, 0.1, 0.3, 1., 1e-5, 1e-7, 0.001, 3e-4, 1.5, 1.2, 1.9]),
        // moves of a few units in the last place: an undo must be exact at every scale
        "C06" | "C05" => *g.pick(&[0.001, 0.01, 0.1, 1., 10., 1e-6, 1e-9, 1e-12, 1e-15, 3e-16]),
        _ => *g.pick(&[0.001, 0.01, 0.1, 1., 10., 1e-6]),
    };
    let conv: Option<f64> = match focus {
        "C20" => match g.below(3) {
            0 => None,
            _ => Some(*g.pick(&[0., 1e-12, 1e-3, 1., f64::INFINITY, 0.02])),
        },
        _ => match g.below(5) {
            0 => Some(*g.pick(&[1e-6, 1e-3, 0.])),
            _ => None,
        },
    };
    format!(
        "steps={} inner={} kt_start={} kt_finish={} kt_ratio={} max_step={} conv={} seed={}",
        steps,
        inner,
        fmt_f(kt_start),
        fmt_fo(kt_finish),
        fmt_fo(kt_ratio),
        fmt_f(max_step),
        fmt_fo(conv),
        g.below(1000)
    )
}

fn real_part(g: &mut Sm) -> String {
    let group = *g.pick(&GROUPS);
    let lj = g.chance(0.35);
    let shape = if lj {
        match g.below(3) {
            0 => "circle".to_string(),
            1 => "trimer:0.637556:120:1".to_string(),
            _ => format!("trimer:{}:{}:{}", fmt_f((g.range(0.4, 1.0) * 100.).round() / 100.), 60 + 10 * g.below(12), fmt_f((g.range(0.8, 1.5) * 100.).round() / 100.)),
        }
    } else {
        match g.below(4) {
            0 => "circle".to_string(),
            1 => "trimer:0.637556:120:1".to_string(),
            _ => format!("polygon:{}", 3 + g.below(6)),
        }
    };
    let pre = *g.pick(&[0u64, 0, 300, 2000]);
    format!(
        "state=real kind={} group={} shape={} pre={} preseed={}",
        if lj { "lj" } else { "hard" },
        group,
        shape,
        pre,
        g.below(100)
    )
}

pub fn gen(focus: &str, seed: u64, count: u64) -> Vec<String> {
    let mut g = Sm::new(seed.wrapping_mul(1_000_003) ^ hash2(focus.len() as u64, focus.bytes().map(|b| b as u64).sum()));
    let mut out = vec![];
    for i in 0..count {
        let real = match focus {
            "C08" => g.chance(0.9),
            "C06" | "C05" | "C20" => g.chance(0.25),
            _ => g.chance(0.15),
        };
        let head = if real {
            real_part(&mut g)
        } else {
            let script = match focus {
                "C05" => *g.pick(&["lnthr", "smooth", "lnthr", "plateau", "weird"]),
                "C06" => *g.pick(&["smooth", "forced", "lnthr", "plateau", "weird"]),
                "C07" => *g.pick(&["lnthr", "lnthr", "weird", "smooth"]),
                "C18" => *g.pick(&["lnthr", "lnthr", "smooth", "forced"]),
                "C19" => *g.pick(&["forced", "forced", "smooth", "weird"]),
                "C20" => *g.pick(&["plateau", "smooth", "forced", "plateau", "quant", "quant"]),
                _ => *g.pick(&["smooth", "forced", "lnthr", "plateau", "weird"]),
            };
            format!(
                "state=scripted script={} n={} share={} sseed={}{}",
                script,
                1 + g.below(9),
                if g.chance(0.4) { 1 + g.below(3) } else { 0 },
                g.below(100_000),
                // C06 quantifies over all states: some start outside their declared ranges
                if (focus == "C06" || focus == "C05" || focus == "C07") && g.chance(0.2) { " outside=1" }
                else if focus == "C20" && g.chance(0.15) { " reversed=1" } else { "" }
            )
        };
        let mut st = settings(&mut g, focus);
        if head.contains("script=quant") {
            // many short loops, thresholds ON the grid of the score steps (and zero)
            let (steps, inner) = *g.pick(&[(3000u64, 7u64), (400, 20), (60, 5), (600, 15), (90, 3), (2000, 100), (64, 1)]);
            let mut s = Spec::parse(&format!("opt {}", st));
            s.kv.insert("steps".into(), steps.to_string());
            s.kv.insert("inner".into(), inner.to_string());
            s.kv.insert("conv".into(), fmt_f(*g.pick(&[0.25, 0.25, 0.5, 0.5, 0., 0.75, 0.26])));
            st = s.kv.iter().map(|(k, v)| format!("{}={}", k, v)).collect::<Vec<_>>().join(" ");
        }
        if real {
            // real states are slow to score: keep runs short
            let mut s = Spec::parse(&format!("opt {}", st));
            let steps = s.u("steps").min(3000);
            s.kv.insert("steps".into(), steps.to_string());
            st = s.kv.iter().map(|(k, v)| format!("{}={}", k, v)).collect::<Vec<_>>().join(" ");
        }
        // C09 / C20: the optimiser object has been used before (few loops, convergence threshold set)
        if !real && ((focus == "C09" && g.chance(0.4)) || ((focus == "C20" || focus == "C06") && g.chance(0.1))) {
            let (steps, inner) = *g.pick(&[(3000u64, 1000u64), (2500, 1000), (10, 3), (7, 7), (4000, 1000), (80, 20), (2000, 1000)]);
            let mut s = Spec::parse(&format!("opt {}", st));
            s.kv.insert("steps".into(), steps.to_string());
            s.kv.insert("inner".into(), inner.to_string());
            s.kv.insert("conv".into(), fmt_f(*g.pick(&[1e-3, 1., 0.02, f64::INFINITY])));
            st = s.kv.iter().map(|(k, v)| format!("{}={}", k, v)).collect::<Vec<_>>().join(" ");
            st.push_str(" reuse=1");
        }
        // the optimiser configured through the library's setters, in either order (C18, C20)
        if (focus == "C18" || focus == "C20") && g.chance(0.15) {
            if g.chance(0.5) && !real {
                // inner loops longer than the builder's default step count
                let (steps, inner) = *g.pick(&[(6000u64, 2000u64), (4500, 1500), (9000, 3000)]);
                let mut s = Spec::parse(&format!("opt {}", st));
                s.kv.insert("steps".into(), steps.to_string());
                s.kv.insert("inner".into(), inner.to_string());
                st = s.kv.iter().map(|(k, v)| format!("{}={}", k, v)).collect::<Vec<_>>().join(" ");
            }
            st.push_str(if g.chance(0.5) { " order=is" } else { " order=si" });
        }
        out.push(format!("opt id={}-{} {} {}", focus, i, head, st));
    }
    out
}
