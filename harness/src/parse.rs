// parse.rs - the `parse` engine: Transform2::from_operations on arbitrary strings.
// Input: one case per line, the UTF-8 bytes of the string in hex (empty line = empty string is
// written as "-").  Output: "Ok <9 hex floats, row-major>" | "Err" | "Panic".
use std::io::{BufRead, Write};
use std::panic::{catch_unwind, AssertUnwindSafe};

use packing::Transform2;

use crate::common::*;

pub fn run(cases: &str, out: &str) {
    let f = std::fs::File::open(cases).expect("cases file");
    let mut o = std::io::BufWriter::new(std::fs::File::create(out).expect("out file"));
    for line in std::io::BufReader::new(f).lines() {
        let line = line.unwrap();
        let hexs = line.trim();
        let bytes: Vec<u8> = if hexs == "-" {
            vec![]
        } else {
            (0..hexs.len() / 2).map(|i| u8::from_str_radix(&hexs[2 * i..2 * i + 2], 16).unwrap()).collect()
        };
        let s = match String::from_utf8(bytes) {
            Ok(s) => s,
            Err(_) => {
                writeln!(o, "NotUtf8").unwrap();
                continue;
            }
        };
        let r = catch_unwind(AssertUnwindSafe(|| Transform2::from_operations(&s)));
        match r {
            Ok(Ok(t)) => {
                let m: nalgebra::Matrix3<f64> = t.into();
                let mut v = vec![];
                for r in 0..3 {
                    for c in 0..3 {
                        v.push(hex(m[(r, c)]));
                    }
                }
                // and what the transform does to three probe points (through the crate's own Mul)
                let mut pts = vec![];
                for p in [(0., 0.), (1., 0.), (0., 1.), (0.25, -0.75)].iter() {
                    let q = t * nalgebra::Point2::new(p.0, p.1);
                    pts.push(hex(q.x));
                    pts.push(hex(q.y));
                }
                writeln!(o, "Ok {} | {}", v.join(" "), pts.join(" ")).unwrap();
            }
            Ok(Err(_)) => writeln!(o, "Err").unwrap(),
            Err(_) => writeln!(o, "Panic").unwrap(),
        }
    }
    o.flush().unwrap();
}
