// pipe.rs - the library path of the command line tool (C09 C10 C11 C20): analyse_state re-played
// replica by replica, sequentially and inside rayon pools of several sizes, and information about a
// written structure for comparison with what the binary logged.
use std::io::Write;

use rayon::prelude::*;
use serde::de::DeserializeOwned;
use structopt::StructOpt;

use packing::traits::{State, ToSVG};
use packing::{BuildOptimiser, LJShape2, LineShape, MolecularShape2, PackedState, PotentialState};

use crate::common::*;
use crate::opt::group_of;

fn three_stages<S: State>(state: &S, optimiser: &BuildOptimiser, index: u64) -> (Option<f64>, String) {
    // exactly what main.rs does for one replica
    let s1 = optimiser.clone().steps(1000).kt_start(0.).seed(index).convergence(None).build().optimise_state(state.clone());
    let s2 = optimiser.clone().seed(index).build().optimise_state(s1);
    let s3 = optimiser.clone().kt_start(0.).seed(index).build().optimise_state(s2);
    (s3.score(), serde_json::to_string(&s3).unwrap())
}

fn run<S: State + DeserializeOwned>(state: S, k: u64, optimiser: &BuildOptimiser, threads: &[usize], out: &mut dyn Write) {
    let before = serde_json::to_string(&state).unwrap();
    // sequential, index by index
    let seq: Vec<(Option<f64>, String)> = (0..k).map(|i| three_stages(&state, optimiser, i)).collect();
    for (i, (sc, js)) in seq.iter().enumerate() {
        writeln!(out, "I {} {} {}", i, hexo(*sc), hash2(js.len() as u64, js.bytes().fold(0u64, |a, b| a.wrapping_mul(131).wrapping_add(b as u64)))).unwrap();
    }
    // the best: the last of the maximal scores (std::cmp::max keeps the later one on a tie)
    let mut best: Option<usize> = None;
    for (i, (sc, _)) in seq.iter().enumerate() {
        match (best, sc) {
            (None, Some(_)) => best = Some(i),
            (Some(b), Some(s)) => {
                if *s >= seq[b].0.unwrap() {
                    best = Some(i);
                }
            }
            _ => {}
        }
    }
    if let Some(b) = best {
        writeln!(out, "BEST {} {}", b, hexo(seq[b].0)).unwrap();
        writeln!(out, "BESTJSON {}", seq[b].1).unwrap();
    } else {
        writeln!(out, "BEST - -").unwrap();
    }
    // the same replicas inside rayon pools, other replicas running concurrently, in reversed submission order
    for &t in threads {
        let pool = rayon::ThreadPoolBuilder::new().num_threads(t).build().unwrap();
        let par: Vec<(u64, Option<f64>, String)> = pool.install(|| {
            let idx: Vec<u64> = (0..k).rev().collect();
            idx.into_par_iter().map(|i| { let (s, j) = three_stages(&state, optimiser, i); (i, s, j) }).collect()
        });
        let mut same = true;
        for (i, s, j) in par.iter() {
            let (s0, j0) = &seq[*i as usize];
            if j != j0 || s.map(|x| x.to_bits()) != s0.map(|x| x.to_bits()) {
                same = false;
                writeln!(out, "DIFF threads={} index={} seq={} par={}", t, i, hexo(*s0), hexo(*s)).unwrap();
            }
        }
        // the reduction the binary uses
        let red = pool.install(|| {
            (0..k).into_par_iter().map(|i| {
                let s1 = optimiser.clone().steps(1000).kt_start(0.).seed(i).convergence(None).build().optimise_state(state.clone());
                let s2 = optimiser.clone().seed(i).build().optimise_state(s1);
                optimiser.clone().kt_start(0.).seed(i).build().optimise_state(s2)
            }).max()
        });
        let red_json = red.map(|s| serde_json::to_string(&s).unwrap());
        let want = best.map(|b| seq[b].1.clone());
        writeln!(out, "PAR threads={} replicas_same={} reduction_same={}", t, same, red_json == want).unwrap();
    }
    let after = serde_json::to_string(&state).unwrap();
    writeln!(out, "ORIG unchanged={}", before == after).unwrap();
}

pub fn pipeline(args: &[String], out: &mut dyn Write) {
    let get = |n: &str| args.iter().position(|a| a == n).and_then(|i| args.get(i + 1)).cloned();
    let group = get("--group").unwrap();
    let kind = get("--kind").unwrap_or_else(|| "hard".into());
    let shape = get("--shape").unwrap();
    let k: u64 = get("--replications").unwrap().parse().unwrap();
    let threads: Vec<usize> = get("--threads").unwrap_or_else(|| "1".into()).split(',').map(|t| t.parse().unwrap()).collect();
    let opt_args = get("--opt").unwrap_or_default();
    let mut v: Vec<String> = vec!["opt".into()];
    v.extend(opt_args.split_whitespace().map(|s| s.to_string()));
    let optimiser = BuildOptimiser::from_iter_safe(v).expect("optimiser arguments");
    let g = group_of(&group);
    let parts: Vec<&str> = shape.split(':').collect();
    match (parts[0], kind.as_str()) {
        ("polygon", "hard") => run(PackedState::from_group(LineShape::polygon(parts[1].parse().unwrap()).unwrap(), &g).unwrap(), k, &optimiser, &threads, out),
        ("circle", "hard") => run(PackedState::from_group(MolecularShape2::circle(), &g).unwrap(), k, &optimiser, &threads, out),
        ("trimer", "hard") => run(PackedState::from_group(MolecularShape2::from_trimer(parse_f(parts[1]), parse_f(parts[2]), parse_f(parts[3])), &g).unwrap(), k, &optimiser, &threads, out),
        ("circle", "lj") => run(PotentialState::from_group(LJShape2::circle(), &g).unwrap(), k, &optimiser, &threads, out),
        ("trimer", "lj") => run(PotentialState::from_group(LJShape2::from_trimer(parse_f(parts[1]), parse_f(parts[2]), parse_f(parts[3])), &g).unwrap(), k, &optimiser, &threads, out),
        _ => panic!("unsupported shape/kind"),
    }
}

pub fn number_tokens(text: &str) -> Vec<String> {
    let b = text.as_bytes();
    let mut out = vec![];
    let mut in_string = false;
    let mut i = 0;
    while i < b.len() {
        let c = b[i];
        if in_string {
            if c == b'\\' {
                i += 1;
            } else if c == b'"' {
                in_string = false;
            }
        } else if c == b'"' {
            in_string = true;
        } else if c == b'-' || (c >= b'0' && c <= b'9') {
            let st = i;
            while i < b.len() && (b[i] == b'-' || b[i] == b'+' || b[i] == b'.' || b[i] == b'e' || b[i] == b'E' || (b[i] >= b'0' && b[i] <= b'9')) {
                i += 1;
            }
            let tok = &text[st..i];
            if tok.contains('.') || tok.contains('e') || tok.contains('E') {
                out.push(tok.to_string());
            }
            continue;
        }
        i += 1;
    }
    out
}

fn info<S: State + DeserializeOwned>(text: &str, svg: Option<String>, out: &mut dyn Write) {
    let st: S = match serde_json::from_str(text) {
        Ok(s) => s,
        Err(e) => {
            writeln!(out, "LOAD error {}", e.to_string().replace('\n', " ")).unwrap();
            return;
        }
    };
    let v: serde_json::Value = serde_json::from_str(text).unwrap();
    writeln!(out, "LOAD ok").unwrap();
    writeln!(out, "SCORE {}", hexo(st.score())).unwrap();
    writeln!(out, "COPIES {}", st.total_shapes()).unwrap();
    writeln!(out, "NAME {}", v["wallpaper"]["name"].as_str().unwrap_or("?")).unwrap();
    writeln!(out, "FAMILY {} {}", v["wallpaper"]["family"].as_str().unwrap_or("?"), v["cell"]["family"].as_str().unwrap_or("?")).unwrap();
    writeln!(out, "SHAPE {}", v["shape"]["name"].as_str().unwrap_or("?")).unwrap();
    writeln!(out, "NSYM {}", v["occupied_sites"][0]["wyckoff"]["symmetries"].as_array().map(|a| a.len()).unwrap_or(0)).unwrap();
    // does every number token of the file survive parse + print (serde_json 1.0.57: not always)?  The tokens
    // were written by ryu as the shortest text identifying a double, so a token that does not come back
    // was parsed to a neighbouring double.
    let inexact = number_tokens(text).iter().any(|t| match serde_json::from_str::<f64>(t) {
        Ok(x) => serde_json::to_string(&x).map(|u| &u != t).unwrap_or(true),
        Err(_) => false,
    });
    // (the same tokens in the same order: the layout of the file - compact or indented, a final newline - is not part of
    //  the structure)
    writeln!(out, "RESERIALISE same={}{}", json_tokens(&serde_json::to_string(&st).unwrap()) == json_tokens(text), if inexact { " class=serde-json-float-parse" } else { "" }).unwrap();
    if let Some(svg) = svg {
        let mut buf: Vec<u8> = vec![];
        svg::write(&mut buf, &st.as_svg()).unwrap();
        // the same drawing: identical text apart from numbers, and numbers equal to 1e-9 (a structure read
        // back from JSON may differ from the written one in the last bit: known finding D16)
        let mine = String::from_utf8_lossy(&buf).trim().to_string();
        let split = |t: &str| -> (String, Vec<f64>) {
            let mut skel = String::new();
            let mut nums = vec![];
            let b = t.as_bytes();
            let mut i = 0;
            while i < b.len() {
                let c = b[i];
                let starts = (c >= b'0' && c <= b'9') || (c == b'-' && i + 1 < b.len() && b[i + 1] >= b'0' && b[i + 1] <= b'9');
                if starts {
                    let st = i;
                    i += 1;
                    while i < b.len() && (b[i] == b'.' || b[i] == b'e' || b[i] == b'E' || (b[i] >= b'0' && b[i] <= b'9')
                        || ((b[i] == b'-' || b[i] == b'+') && (b[i - 1] == b'e' || b[i - 1] == b'E'))) {
                        i += 1;
                    }
                    nums.push(t[st..i].parse::<f64>().unwrap_or(f64::NAN));
                    skel.push('#');
                } else {
                    skel.push(c as char);
                    i += 1;
                }
            }
            (skel, nums)
        };
        let (s1, n1) = split(&mine);
        let (s2, n2) = split(svg.trim());
        let close = s1 == s2 && n1.len() == n2.len() && n1.iter().zip(n2.iter()).all(|(a, b)| (a - b).abs() <= 1e-9 * (1. + a.abs()));
        writeln!(out, "SVG same={}", close).unwrap();
    }
}

pub fn state_info(args: &[String], out: &mut dyn Write) {
    let get = |n: &str| args.iter().position(|a| a == n).and_then(|i| args.get(i + 1)).cloned();
    let kind = get("--kind").unwrap_or_else(|| "hard".into());
    let shape = get("--shape").unwrap();
    let text = std::fs::read_to_string(get("--json").unwrap()).unwrap_or_default();
    let svg = get("--svg").map(|p| std::fs::read_to_string(p).unwrap_or_default());
    match (shape.split(':').next().unwrap(), kind.as_str()) {
        ("polygon", "hard") => info::<PackedState<LineShape>>(&text, svg, out),
        ("circle", "hard") | ("trimer", "hard") => info::<PackedState<MolecularShape2>>(&text, svg, out),
        ("circle", "lj") | ("trimer", "lj") => info::<PotentialState<LJShape2>>(&text, svg, out),
        _ => panic!("unsupported shape/kind"),
    }
}

/// the text of a JSON document without the white space between its tokens
fn json_tokens(text: &str) -> String {
    let mut out = String::with_capacity(text.len());
    let (mut in_str, mut esc) = (false, false);
    for c in text.chars() {
        if in_str {
            out.push(c);
            if esc {
                esc = false;
            } else if c == '\\' {
                esc = true;
            } else if c == '"' {
                in_str = false;
            }
        } else if c == '"' {
            in_str = true;
            out.push(c);
        } else if !c.is_whitespace() {
            out.push(c);
        }
    }
    out
}
