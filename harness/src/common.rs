// common.rs - small shared helpers: spec strings, float bit encoding, a deterministic PRNG
// for case generation (independent of the crate under test).
use std::collections::BTreeMap;

pub fn hex(x: f64) -> String {
    format!("{:016x}", x.to_bits())
}

pub fn hexo(x: Option<f64>) -> String {
    match x {
        Some(v) => hex(v),
        None => "-".to_string(),
    }
}

pub fn unhex(s: &str) -> f64 {
    f64::from_bits(u64::from_str_radix(s, 16).expect("hex float"))
}

/// A case specification: `engine key=value key=value ...`
#[derive(Clone, Debug)]
pub struct Spec {
    pub engine: String,
    pub kv: BTreeMap<String, String>,
    pub text: String,
}

impl Spec {
    pub fn parse(text: &str) -> Spec {
        let mut it = text.split_whitespace();
        let engine = it.next().unwrap_or("").to_string();
        let mut kv = BTreeMap::new();
        for tok in it {
            if let Some(pos) = tok.find('=') {
                kv.insert(tok[..pos].to_string(), tok[pos + 1..].to_string());
            }
        }
        Spec {
            engine,
            kv,
            text: text.trim().to_string(),
        }
    }
    pub fn get(&self, k: &str) -> &str {
        self.kv
            .get(k)
            .map(|s| s.as_str())
            .unwrap_or_else(|| panic!("spec lacks key {}: {}", k, self.text))
    }
    pub fn get_or<'a>(&'a self, k: &str, d: &'a str) -> &'a str {
        self.kv.get(k).map(|s| s.as_str()).unwrap_or(d)
    }
    pub fn f(&self, k: &str) -> f64 {
        parse_f(self.get(k))
    }
    pub fn fo(&self, k: &str) -> Option<f64> {
        match self.kv.get(k).map(|s| s.as_str()) {
            None | Some("-") => None,
            Some(s) => Some(parse_f(s)),
        }
    }
    pub fn u(&self, k: &str) -> u64 {
        self.get(k).parse().expect("integer")
    }
    pub fn i_or(&self, k: &str, d: i64) -> i64 {
        self.kv.get(k).map(|s| s.parse().expect("integer")).unwrap_or(d)
    }
    pub fn u_or(&self, k: &str, d: u64) -> u64 {
        self.kv.get(k).map(|s| s.parse().expect("integer")).unwrap_or(d)
    }
}

/// floats in specs: decimal (shortest round-trip, `{:?}`), or `x<16 hex digits>` for bit patterns
pub fn parse_f(s: &str) -> f64 {
    if let Some(h) = s.strip_prefix('x') {
        unhex(h)
    } else if s == "inf" {
        f64::INFINITY
    } else if s == "-inf" {
        f64::NEG_INFINITY
    } else if s == "nan" {
        f64::NAN
    } else {
        s.parse().unwrap_or_else(|_| panic!("bad float {}", s))
    }
}

pub fn fmt_f(x: f64) -> String {
    if x.is_nan() {
        "nan".into()
    } else if x == f64::INFINITY {
        "inf".into()
    } else if x == f64::NEG_INFINITY {
        "-inf".into()
    } else {
        format!("{:?}", x)
    }
}

pub fn fmt_fo(x: Option<f64>) -> String {
    x.map(fmt_f).unwrap_or_else(|| "-".into())
}

/// SplitMix64: the generator every random choice of the harness derives from.
#[derive(Clone)]
pub struct Sm(pub u64);

impl Sm {
    pub fn new(seed: u64) -> Sm {
        Sm(seed ^ 0x9E37_79B9_7F4A_7C15)
    }
    pub fn next(&mut self) -> u64 {
        self.0 = self.0.wrapping_add(0x9E37_79B9_7F4A_7C15);
        let mut z = self.0;
        z = (z ^ (z >> 30)).wrapping_mul(0xBF58_476D_1CE4_E5B9);
        z = (z ^ (z >> 27)).wrapping_mul(0x94D0_49BB_1331_11EB);
        z ^ (z >> 31)
    }
    /// uniform in [0,1)
    pub fn unit(&mut self) -> f64 {
        (self.next() >> 11) as f64 / (1u64 << 53) as f64
    }
    pub fn range(&mut self, lo: f64, hi: f64) -> f64 {
        lo + (hi - lo) * self.unit()
    }
    pub fn below(&mut self, n: u64) -> u64 {
        self.next() % n.max(1)
    }
    pub fn pick<'a, T>(&mut self, xs: &'a [T]) -> &'a T {
        &xs[self.below(xs.len() as u64) as usize]
    }
    pub fn chance(&mut self, p: f64) -> bool {
        self.unit() < p
    }
}

pub fn hash2(a: u64, b: u64) -> u64 {
    let mut s = Sm::new(a.wrapping_mul(0x2545_F491_4F6C_DD1D) ^ b);
    s.next()
}

pub struct Finding {
    pub property: &'static str,
    pub what: String,
}
